package main

import (
	"fmt"
	"go/token"
	"go/types"
	"regexp"
	"sort"
	"strings"
)

// Val is a symbolic Go value: its static type and the SMT terms of its
// leaves.  Loc is set for the static address of a cell of a non-escaping
// local (NaiveForm Alloc kept in the symbolic store).
type Val struct {
	T   types.Type
	L   []string
	Loc *LocalAddr
	Via []viaTag // for pointers produced by field addressing (see Addr.Via)
}

type LocalAddr struct {
	A   any // *ssa.Alloc
	Off int
	T   types.Type // type of the addressed cell region
}

type ItemKind int

const (
	ItAssume ItemKind = iota
	ItOblig
)

// Item is an assumption or a proof obligation at a program point.
type Item struct {
	Kind    ItemKind
	DeclPos int // number of prelude lines visible
	Guard   string
	Formula string
	Name    string // obligations only
	Class   string // ensures, requires, safe, invariant, frame, canary, cover, lemma
	Pos     token.Position
	Text    string // source text of the clause
	Expect  string // "unsat" (default) or "sat" for canaries / covers
	Replay  *ReplayInfo
	Watch   []WatchTerm
	Finding *Finding
	Hyps    []string // extra hypotheses for this obligation only (earlier ensures named by `uses`)
}

type WatchTerm struct {
	Text  string
	Terms []string
}

// Ctx accumulates the SMT prelude and the ordered list of items for one
// function under contract (or one lemma).
type Ctx struct {
	decls       []string
	items       []Item
	n           int
	strLits     map[string]string // Go string constant -> SMT name
	strOrder    []string
	boxedBasic  map[int]types.Type // tags of basic types (their interface values are compared by content)
	strExt      bool               // emit extensionality axioms for short string literals (contract flag `strext`)
	pendingGone string             // message of a goal clause that could not be stated (attached to the next obligation)
	ufs         map[string]bool
	typeTags    map[string]int
	globals     map[string]bool
	trusted     map[string]bool // trusted-table entries and assumed contracts used
	notes       map[string]bool // abstractions applied (havocked instructions, ...)
	boolDefs    map[string]string
	boolDefsN   int
	defCache    map[string]string
	lastDefined string
	syms        map[string]map[string]bool
	symsN       int
	skolems     []skolemConst
}

type skolemConst struct{ sort, name string }

func newCtx() *Ctx {
	c := &Ctx{strLits: map[string]string{}, ufs: map[string]bool{}, typeTags: map[string]int{}, globals: map[string]bool{}, trusted: map[string]bool{}, notes: map[string]bool{}}
	c.decls = append(c.decls,
		"(declare-sort Str 0)",
		"(declare-fun slen (Str) (_ BitVec 64))",
		"(declare-fun sbyte (Str (_ BitVec 64)) (_ BitVec 8))",
		"(declare-const str_empty Str)",
		"(assert (= (slen str_empty) (_ bv0 64)))",
		"(assert (forall ((s!q Str)) (! (=> (= (slen s!q) (_ bv0 64)) (= s!q str_empty)) :pattern ((slen s!q)))))",
		"(declare-fun objtype (Int) Int)",
		"(declare-fun boxedtag (Int) Bool)",
		"(assert (not (boxedtag 0)))",
	)
	return c
}

func (c *Ctx) fresh(hint, sort string) string {
	c.n++
	name := fmt.Sprintf("%s!%d", sanitize(hint), c.n)
	c.decls = append(c.decls, fmt.Sprintf("(declare-const %s %s)", name, sort))
	return name
}

func (c *Ctx) define(hint, sort, term string) string {
	if isAtom(term) {
		return term
	}
	// hash-consing: the same term gets the same name (re-loads from an
	// unchanged heap become syntactically identical)
	if c.defCache == nil {
		c.defCache = map[string]string{}
	}
	key := sort + "\x00" + term
	if n, ok := c.defCache[key]; ok && !strings.Contains(term, "!q") && !strings.Contains(term, "k!l") {
		return n
	}
	defer func() {
		if !strings.Contains(term, "!q") && !strings.Contains(term, "k!l") {
			c.defCache[key] = c.lastDefined
		}
	}()
	c.n++
	name := fmt.Sprintf("%s!%d", sanitize(hint), c.n)
	c.decls = append(c.decls, fmt.Sprintf("(define-fun %s () %s %s)", name, sort, term))
	c.lastDefined = name
	return name
}

func (c *Ctx) raw(line string) { c.decls = append(c.decls, line) }

func (c *Ctx) declareFun(name string, argSorts []string, ret string) {
	if c.ufs[name] {
		return
	}
	c.ufs[name] = true
	c.decls = append(c.decls, fmt.Sprintf("(declare-fun %s (%s) %s)", name, strings.Join(argSorts, " "), ret))
}

func isAtom(t string) bool {
	if t == "" {
		return true
	}
	if t[0] != '(' {
		return true
	}
	return strings.HasPrefix(t, "(_ bv")
}

func sanitize(s string) string {
	var b strings.Builder
	for _, r := range s {
		switch {
		case r >= 'a' && r <= 'z', r >= 'A' && r <= 'Z', r >= '0' && r <= '9', r == '_', r == '.':
			b.WriteRune(r)
		default:
			b.WriteByte('_')
		}
	}
	if b.Len() == 0 {
		return "v"
	}
	return b.String()
}

func (c *Ctx) assume(guard, formula string) {
	if formula == "true" {
		return
	}
	c.items = append(c.items, Item{Kind: ItAssume, DeclPos: len(c.decls), Guard: guard, Formula: formula})
}

func (c *Ctx) oblige(it Item) {
	it.Kind = ItOblig
	it.DeclPos = len(c.decls)
	if c.pendingGone != "" {
		it.Text += "   [cannot be stated: " + c.pendingGone + "]"
		c.pendingGone = ""
	}
	if it.Expect == "" {
		it.Expect = "unsat"
	}
	c.items = append(c.items, it)
}

// strLit returns the SMT constant for a Go string literal.
func (c *Ctx) strLit(s string) string {
	if s == "" {
		return "str_empty"
	}
	if n, ok := c.strLits[s]; ok {
		return n
	}
	name := fmt.Sprintf("strlit!%d_%s", len(c.strLits), sanitize(truncate(s, 16)))
	c.strLits[s] = name
	c.strOrder = append(c.strOrder, s)
	return name
}

func truncate(s string, n int) string {
	if len(s) > n {
		return s[:n]
	}
	return s
}

// strLitDecls are emitted at the head of every query (string literals are
// collected while encoding, so they cannot be placed in order).
func (c *Ctx) strLitDecls() []string {
	var out []string
	var names []string
	for _, s := range c.strOrder {
		n := c.strLits[s]
		names = append(names, n)
		out = append(out, fmt.Sprintf("(declare-const %s Str)", n))
		out = append(out, fmt.Sprintf("(assert (= (slen %s) %s))", n, bv64(int64(len(s)))))
		lim := len(s)
		if lim > 48 {
			lim = 48
		}
		for i := 0; i < lim; i++ {
			out = append(out, fmt.Sprintf("(assert (= (sbyte %s %s) %s))", n, bv64(int64(i)), bvLitI(int64(s[i]), 8)))
		}
		// extensionality for short literals: a string with these bytes IS this literal
		if len(s) <= 8 && c.strExt {
			var cs []string
			cs = append(cs, fmt.Sprintf("(= (slen s!q) %s)", bv64(int64(len(s)))))
			for i := 0; i < len(s); i++ {
				cs = append(cs, fmt.Sprintf("(= (sbyte s!q %s) %s)", bv64(int64(i)), bvLitI(int64(s[i]), 8)))
			}
			out = append(out, fmt.Sprintf("(assert (forall ((s!q Str)) (! (=> (and %s) (= s!q %s)) :pattern ((slen s!q)))))", strings.Join(cs, " "), n))
		}
	}
	if len(names) > 1 {
		out = append(out, "(assert (distinct "+strings.Join(names, " ")+"))")
	}
	return out
}

// typeTag gives a stable positive integer for a dynamic type.
func (c *Ctx) typeTag(t types.Type) string {
	k := canonTypeString(t)
	if n, ok := c.typeTags[k]; ok {
		return fmt.Sprint(n)
	}
	n := len(c.typeTags) + 1
	c.typeTags[k] = n
	// how values of this dynamic type sit in an interface: pointer-shaped
	// types by reference, all others boxed (compared by value)
	boxed := !(pointerLike(t) || refLike(t))
	c.raw(fmt.Sprintf("(assert (= (boxedtag %d) %v))", n, boxed))
	if b, ok := t.Underlying().(*types.Basic); ok && boxed && b.Kind() != types.UnsafePointer {
		if c.boxedBasic == nil {
			c.boxedBasic = map[int]types.Type{}
		}
		c.boxedBasic[n] = t
	}
	return fmt.Sprint(n)
}

func sortedKeys(m map[string]bool) []string {
	var out []string
	for k := range m {
		out = append(out, k)
	}
	sort.Strings(out)
	return out
}

// lambda binds an array comprehension  k -> body  (k is written k!l in body)
// to a name.  z3 gets a define-fun with a lambda term; cvc5, which rejects
// lambda terms as arrays, gets a fresh array constant with a quantified
// definition (see buildQuery).
func (c *Ctx) lambda(resultSort, body string) string {
	c.n++
	name := fmt.Sprintf("lam!%d", c.n)
	c.decls = append(c.decls, "LAMBDA\t"+name+"\t"+resultSort+"\t"+body)
	return name
}

// lambdaRef: like lambda, for an array indexed by object reference (Int);
// the bound variable is written r!l.
func (c *Ctx) lambdaRef(resultSort, body string) string {
	c.n++
	name := fmt.Sprintf("lamr!%d", c.n)
	c.decls = append(c.decls, "LAMBDAR\t"+name+"\t"+resultSort+"\t"+body)
	return name
}

func expandLambdaDecl(line string, forCVC5 bool) string {
	parts := strings.SplitN(line, "\t", 4)
	name, sort, body := parts[1], parts[2], parts[3]
	if parts[0] == "LAMBDAR" {
		if !forCVC5 {
			return fmt.Sprintf("(define-fun %s () (Array Int %s) (lambda ((r!l Int)) %s))", name, sort, body)
		}
		return fmt.Sprintf("(declare-const %s (Array Int %s))\n(assert (forall ((r!l Int)) (! (= (select %s r!l) %s) :pattern ((select %s r!l)))))", name, sort, name, body, name)
	}
	if !forCVC5 {
		return fmt.Sprintf("(define-fun %s () (Array (_ BitVec 64) %s) (lambda ((k!l (_ BitVec 64))) %s))", name, sort, body)
	}
	return fmt.Sprintf("(declare-const %s (Array (_ BitVec 64) %s))\n(assert (forall ((k!l (_ BitVec 64))) (! (= (select %s k!l) %s) :pattern ((select %s k!l)))))", name, sort, name, body, name)
}

var byteRe = regexp.MustCompile(`\bbyte\b`)
var runeRe = regexp.MustCompile(`\brune\b`)
var anyRe = regexp.MustCompile(`\bany\b`)

// canonTypeString is types.TypeString with the predeclared aliases expanded,
// so identical types get identical keys.
func canonTypeString(t types.Type) string {
	k := types.TypeString(t, nil)
	k = byteRe.ReplaceAllString(k, "uint8")
	k = runeRe.ReplaceAllString(k, "int32")
	k = anyRe.ReplaceAllString(k, "interface{}")
	return k
}
