package main

import (
	"fmt"
	"os"
	"path/filepath"
	"strings"
)

// writeReplay writes the replay artefact for a failed obligation and
// reports whether the counterexample was confirmed on the real code.
func writeReplay(e *Eng, dir string, r ObResult, repo string) (string, bool) {
	var b strings.Builder
	fmt.Fprintf(&b, "obligation: %s\nclass: %s\nat: %s\nclause: %s\nstatus: %s\n\n", r.Name, r.Class, r.Pos, r.Text, r.Status)
	fmt.Fprintf(&b, "solver output:\n%s\n\n", r.Output)
	if r.Status == "failed" && r.ctx != nil {
		b.WriteString("counterexample (values of parameters, results and pre-state in the solver's model):\n")
		b.WriteString(explain(r.ctx, r.idx))
	}
	path := filepath.Join(dir, sanitize(r.Name)+".txt")
	os.WriteFile(path, []byte(b.String()), 0o644)
	return path, false
}
