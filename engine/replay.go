package main

// Counterexample replay on the real code (DESIGN 4.2).
//
// For a failed obligation whose query is satisfiable the solver's model
// fixes the function's arguments and pre-state.  The replayer materialises
// them as Go values, generates an in-package test that runs the REAL
// function on them (injected with `go test -overlay`, nothing is written to
// the repository), and compares what the real code does with what the model
// says it does:
//   safe:* obligations      -> the real call must panic;
//   ensures / known         -> results and reachable post-state of the real
//                              run must equal the model's, i.e. the execution
//                              in which the solver evaluates the postcondition
//                              to false is a real execution.
// Anything the materialiser cannot build (maps, interfaces, channels,
// closures, foreign types) makes the replay "not attempted".

import (
	"encoding/json"
	"fmt"
	"go/types"
	"os"
	"os/exec"
	"path/filepath"
	"sort"
	"strconv"
	"strings"
	"time"

	"golang.org/x/tools/go/ssa"
)

type ReplayInfo struct {
	Fn      *ssa.Function
	Params  []Val
	Results []Val
	Pre     *State
	Post    *State
}

type noReplay struct{ why string }

func giveUp(f string, a ...any) { panic(noReplay{fmt.Sprintf(f, a...)}) }

// modelSession evaluates terms in the model of one query by re-running the
// (deterministic) solver with a get-value suffix.
type modelSession struct {
	query string
	cache map[string]string
	dir   string
	n     int
	start time.Time
}

func (m *modelSession) eval(terms []string) []string {
	var need []string
	seen := map[string]bool{}
	for _, t := range terms {
		if _, ok := m.cache[t]; !ok && !seen[t] {
			need = append(need, t)
			seen[t] = true
		}
	}
	for len(need) > 0 {
		n := len(need)
		if n > 2000 {
			n = 2000
		}
		batch := need[:n]
		need = need[n:]
		q := m.query + "(get-value (" + strings.Join(batch, "\n") + "))\n"
		m.n++
		if m.start.IsZero() {
			m.start = time.Now()
		}
		if m.n > 40 || time.Since(m.start) > 150*time.Second {
			giveUp("materialising the model needs more than 40 solver runs or 150 s: replay given up (the obligation and the solver's model are reported)")
		}
		file := filepath.Join(m.dir, fmt.Sprintf("m%d.smt2", m.n))
		os.WriteFile(file, []byte(q), 0o644)
		out, _ := exec.Command("z3-new", "-T:20", file).CombinedOutput()
		text := string(out)
		if !strings.HasPrefix(text, "sat") {
			giveUp("model not reproducible: %s", truncate(text, 100))
		}
		vals := parseGetValueRaw(text)
		if len(vals) != len(batch) {
			giveUp("get-value returned %d values for %d terms", len(vals), len(batch))
		}
		for i, t := range batch {
			m.cache[t] = vals[i]
		}
	}
	out := make([]string, len(terms))
	for i, t := range terms {
		out[i] = m.cache[t]
	}
	return out
}

// parseGetValueRaw returns the value strings of a get-value answer in order.
func parseGetValueRaw(text string) []string {
	i := strings.Index(text, "((")
	if i < 0 {
		return nil
	}
	s := text[i+1:]
	var out []string
	for {
		s = strings.TrimLeft(s, " \n\t")
		if len(s) == 0 || s[0] != '(' {
			break
		}
		j := matchParen(s, 0)
		if j < 0 {
			break
		}
		pair := s[1:j]
		var val string
		if pair[0] == '(' {
			k := matchParen(pair, 0)
			val = strings.TrimSpace(pair[k+1:])
		} else {
			k := strings.IndexAny(pair, " \n")
			val = strings.TrimSpace(pair[k+1:])
		}
		out = append(out, val)
		s = s[j+1:]
	}
	return out
}

func (m *modelSession) u64(term string) uint64 {
	v := m.eval([]string{term})[0]
	return parseBV(v)
}

func parseBV(v string) uint64 {
	switch {
	case strings.HasPrefix(v, "#x"):
		n, _ := strconv.ParseUint(v[2:], 16, 64)
		return n
	case strings.HasPrefix(v, "#b"):
		n, _ := strconv.ParseUint(v[2:], 2, 64)
		return n
	case strings.HasPrefix(v, "(_ bv"):
		var n uint64
		fmt.Sscanf(v, "(_ bv%d", &n)
		return n
	}
	giveUp("not a bit-vector value: %s", v)
	return 0
}

func (m *modelSession) intv(term string) int64 {
	v := m.eval([]string{term})[0]
	v = strings.TrimSpace(v)
	if strings.HasPrefix(v, "(-") {
		n, _ := strconv.ParseInt(strings.TrimSpace(v[2:len(v)-1]), 10, 64)
		return -n
	}
	n, err := strconv.ParseInt(v, 10, 64)
	if err != nil {
		giveUp("not an integer value: %s", v)
	}
	return n
}

func (m *modelSession) boolv(term string) bool {
	return m.eval([]string{term})[0] == "true"
}

// materialiser builds Go source for values read out of a model.
type materialiser struct {
	enc   *Enc
	ms    *modelSession
	pkg   *types.Package
	stmts []string
	nvar  int
	// objects already built in this state: key -> Go variable
	objs map[string]string
	// what to compare after the call: Go variable of a pre-state object ->
	// builder of the expected post value
	roots []rootObj
}

type rootObj struct {
	goVar string
	t     types.Type // pointee type (pointer roots) or slice type
	addr  [3]string  // concrete address terms
	hdr   []string   // slice header (concrete terms) for slice roots
}

const maxReplayLen = 1 << 13

func (mz *materialiser) newVar() string {
	mz.nvar++
	return fmt.Sprintf("v%d", mz.nvar)
}

func (mz *materialiser) typeStr(t types.Type) string {
	ok := true
	s := types.TypeString(t, func(p *types.Package) string {
		if p == mz.pkg {
			return ""
		}
		switch p.Path() {
		case "sync", "time":
			return p.Name()
		}
		ok = false
		return p.Name()
	})
	if !ok {
		giveUp("type %s from a foreign package", t)
	}
	return s
}

func lit(sort string, v string) string {
	if sort == SBool {
		return v
	}
	return fmt.Sprint(parseBV(v))
}

// value renders the Go expression of a value of type t whose leaves are the
// given terms, reading pointees from state st.
func (mz *materialiser) value(st *State, t types.Type, L []string) string {
	switch u := t.Underlying().(type) {
	case *types.Basic:
		switch {
		case u.Info()&types.IsBoolean != 0:
			return fmt.Sprintf("%s(%v)", mz.typeStr(t), mz.ms.boolv(L[0]))
		case u.Info()&types.IsInteger != 0:
			n := mz.ms.u64(L[0])
			if isSigned(t) {
				w := intWidth(t)
				sv := int64(n)
				if w < 64 && n&(1<<(w-1)) != 0 {
					sv = int64(n) - (1 << w)
				}
				return fmt.Sprintf("%s(%d)", mz.typeStr(t), sv)
			}
			return fmt.Sprintf("%s(%d)", mz.typeStr(t), n)
		case u.Info()&types.IsString != 0:
			n := mz.ms.u64("(slen " + L[0] + ")")
			if n > maxReplayLen {
				giveUp("string of length %d", n)
			}
			var terms []string
			for k := uint64(0); k < n; k++ {
				terms = append(terms, fmt.Sprintf("(sbyte %s %s)", L[0], bv64(int64(k))))
			}
			vals := mz.ms.eval(terms)
			bs := make([]byte, n)
			for k := range vals {
				bs[k] = byte(parseBV(vals[k]))
			}
			return fmt.Sprintf("%s(%q)", mz.typeStr(t), string(bs))
		}
		giveUp("basic type %s", t)
	case *types.Struct:
		if n, ok := t.(*types.Named); ok && n.Obj().Pkg() != nil && n.Obj().Pkg().Path() == "sync" {
			return mz.typeStr(t) + "{}"
		}
		var parts []string
		for _, fi := range mz.enc.l.structFields(t) {
			if fi.Ghost {
				continue
			}
			n := mz.enc.l.cells(fi.T)
			if fi.Name == "_" || isSyncType(fi.T) {
				continue
			}
			if fv := mz.value(st, fi.T, L[fi.Off:fi.Off+n]); !isZeroish(fv) {
				parts = append(parts, fi.Name+": "+fv)
			}
		}
		return mz.typeStr(t) + "{" + strings.Join(parts, ", ") + "}"
	case *types.Pointer:
		return mz.pointer(st, t, L)
	case *types.Slice:
		return mz.slice(st, t, L)
	case *types.Array:
		ec := mz.enc.l.cells(u.Elem())
		var parts []string
		for i := int64(0); i < u.Len(); i++ {
			parts = append(parts, mz.value(st, u.Elem(), L[int(i)*ec:int(i+1)*ec]))
		}
		return mz.typeStr(t) + "{" + strings.Join(parts, ", ") + "}"
	}
	giveUp("cannot materialise a value of type %s", t)
	return ""
}

func (mz *materialiser) concreteAddr(L []string) [3]string {
	ref := mz.ms.intv(L[0])
	idx := mz.ms.u64(L[1])
	sub := mz.ms.u64(L[2])
	return [3]string{fmt.Sprint(ref), bv64(int64(idx)), bv64(int64(sub))}
}

// object reads a value of type t stored at a concrete address.
func (mz *materialiser) object(st *State, t types.Type, a [3]string) string {
	if arr, ok := t.Underlying().(*types.Array); ok && mz.enc.l.cells(arr.Elem()) == 1 {
		// bulk read of a scalar array
		so := mz.enc.l.leafSorts(arr.Elem())[0]
		inner := sel(sel(mz.enc.heap(st, so), a[0]), a[1])
		var terms []string
		for k := int64(0); k < arr.Len(); k++ {
			terms = append(terms, sel(inner, bvadd(a[2], bv64(k))))
		}
		vals := mz.ms.eval(terms)
		allZero := true
		parts := make([]string, len(vals))
		for k, v := range vals {
			parts[k] = lit(so, v)
			if parts[k] != "0" && parts[k] != "false" {
				allZero = false
			}
		}
		if allZero {
			return mz.typeStr(t) + "{}"
		}
		return mz.typeStr(t) + "{" + strings.Join(parts, ", ") + "}"
	}
	if stt, ok := t.Underlying().(*types.Struct); ok {
		_ = stt
		if n, ok := t.(*types.Named); ok && n.Obj().Pkg() != nil && n.Obj().Pkg().Path() == "sync" {
			return mz.typeStr(t) + "{}"
		}
		var parts []string
		for _, fi := range mz.enc.l.structFields(t) {
			if fi.Ghost || fi.Name == "_" || isSyncType(fi.T) {
				continue
			}
			fa := [3]string{a[0], a[1], bvadd(a[2], bv64(int64(fi.Off)))}
			if fv := mz.object(st, fi.T, fa); !isZeroish(fv) {
				parts = append(parts, fi.Name+": "+fv)
			}
		}
		return mz.typeStr(t) + "{" + strings.Join(parts, ", ") + "}"
	}
	sorts := mz.enc.l.leafSorts(t)
	L := make([]string, len(sorts))
	for k, so := range sorts {
		L[k] = sel(sel(sel(mz.enc.heap(st, so), a[0]), a[1]), bvadd(a[2], bv64(int64(k))))
	}
	return mz.value(st, t, L)
}

func (mz *materialiser) pointer(st *State, t types.Type, L []string) string {
	a := mz.concreteAddr(L)
	if a[0] == "0" {
		return "(" + mz.typeStr(t) + ")(nil)"
	}
	key := strings.Join(a[:], "/") + ":" + types.TypeString(t, nil)
	if v, ok := mz.objs[key]; ok {
		return v
	}
	pt := derefType(t)
	v := mz.newVar()
	mz.objs[key] = v
	body := mz.object(st, pt, a)
	if _, isStruct := pt.Underlying().(*types.Struct); isStruct {
		mz.stmts = append(mz.stmts, fmt.Sprintf("%s := &%s", v, body))
	} else {
		mz.stmts = append(mz.stmts, fmt.Sprintf("%s := new(%s); *%s = %s", v, mz.typeStr(pt), v, body))
	}
	mz.roots = append(mz.roots, rootObj{goVar: v, t: pt, addr: a})
	return v
}

func (mz *materialiser) slice(st *State, t types.Type, L []string) string {
	a := mz.concreteAddr(L)
	ln := mz.ms.u64(L[3])
	cp := mz.ms.u64(L[4])
	et := t.Underlying().(*types.Slice).Elem()
	if a[0] == "0" {
		return "(" + mz.typeStr(t) + ")(nil)"
	}
	if ln > maxReplayLen {
		giveUp("slice of length %d", ln)
	}
	if cp > ln+64 {
		cp = ln + 64 // the model's capacity is arbitrary; keep allocations small
	}
	key := strings.Join(a[:], "/") + fmt.Sprintf(":%d:%d:", ln, cp) + types.TypeString(t, nil)
	if v, ok := mz.objs[key]; ok {
		return v
	}
	v := mz.newVar()
	mz.objs[key] = v
	one := mz.enc.l.oneCell(et)
	var elems []string
	if one {
		so := mz.enc.l.leafSorts(et)[0]
		if so == SStr || so == SInt {
			for k := uint64(0); k < ln; k++ {
				ea := [3]string{a[0], a[1], bvadd(a[2], bv64(int64(k)))}
				elems = append(elems, mz.object(st, et, ea))
			}
		} else {
			inner := sel(sel(mz.enc.heap(st, so), a[0]), a[1])
			var terms []string
			for k := uint64(0); k < ln; k++ {
				terms = append(terms, sel(inner, bvadd(a[2], bv64(int64(k)))))
			}
			for _, val := range mz.ms.eval(terms) {
				elems = append(elems, lit(so, val))
			}
		}
	} else {
		if ln > 256 {
			giveUp("slice of %d multi-cell elements", ln)
		}
		for k := uint64(0); k < ln; k++ {
			ea := [3]string{a[0], bvadd(a[1], bv64(int64(k))), a[2]}
			elems = append(elems, mz.object(st, et, ea))
		}
	}
	mz.stmts = append(mz.stmts, fmt.Sprintf("%s := make(%s, %d, %d)", v, mz.typeStr(t), ln, cp))
	for k, el := range elems {
		if !isZeroish(el) {
			mz.stmts = append(mz.stmts, fmt.Sprintf("%s[%d] = %s", v, k, el))
		}
	}
	return v
}

// replayObligation tries to confirm the counterexample of a failed
// obligation on the real code.  It returns the Go test source (if one was
// generated), whether the violation was confirmed, and a log.
func replayObligation(e *Eng, r ObResult, repo string) (src string, confirmed bool, log string) {
	it := r.item
	if it.Replay == nil || it.Replay.Fn == nil {
		return "", false, "no replay harness for this obligation class"
	}
	ri := it.Replay
	fn := ri.Fn
	if fn.Pkg == nil {
		return "", false, "function has no package"
	}
	defer func() {
		if x := recover(); x != nil {
			if nr, ok := x.(noReplay); ok {
				log += "replay not attempted: " + nr.why + "\n"
				confirmed = false
				return
			}
			panic(x)
		}
	}()
	tmp := tmpDir()
	defer os.RemoveAll(tmp)
	ms := &modelSession{query: buildQuery(r.ctx, r.idx, true, false), cache: map[string]string{}, dir: tmp}
	enc := &Enc{c: r.ctx, l: e.lay}
	pre := &materialiser{enc: enc, ms: ms, pkg: fn.Pkg.Pkg, objs: map[string]string{}}
	var args []string
	for _, p := range ri.Params {
		args = append(args, pre.value(ri.Pre, p.T, p.L))
	}
	// expected post-state (only meaningful for ensures-style obligations)
	post := &materialiser{enc: enc, ms: ms, pkg: fn.Pkg.Pkg, objs: map[string]string{}}
	post.nvar = 1000
	var checks []string
	wantPanic := it.Class == "safe"
	if !wantPanic {
		sig := fn.Signature
		for i, rv := range ri.Results {
			exp := post.value(ri.Post, rv.T, rv.L)
			_ = sig
			checks = append(checks, fmt.Sprintf("{ exp := %s; if !reflect.DeepEqual(r%d, exp) { diverged(\"result %d\", r%d, exp) } }", exp, i, i, i))
		}
		for _, ro := range pre.roots {
			exp := post.object(ri.Post, ro.t, ro.addr)
			if _, isStruct := ro.t.Underlying().(*types.Struct); isStruct {
				checks = append(checks, fmt.Sprintf("{ exp := &%s; if !reflect.DeepEqual(%s, exp) { diverged(\"post-state of %s\", *%s, *exp) } }", exp, ro.goVar, ro.goVar, ro.goVar))
			} else {
				checks = append(checks, fmt.Sprintf("{ exp := %s; if !reflect.DeepEqual(*%s, exp) { diverged(\"post-state of %s\", *%s, exp) } }", exp, ro.goVar, ro.goVar, ro.goVar))
			}
		}
	}
	// call expression
	var call string
	nres := fn.Signature.Results().Len()
	var lhs []string
	for i := 0; i < nres; i++ {
		lhs = append(lhs, fmt.Sprintf("r%d", i))
	}
	if fn.Signature.Recv() != nil {
		call = fmt.Sprintf("(%s).%s(%s)", args[0], fn.Name(), strings.Join(args[1:], ", "))
	} else {
		call = fmt.Sprintf("%s(%s)", fn.Name(), strings.Join(args, ", "))
	}
	var b strings.Builder
	fmt.Fprintf(&b, "// Code generated by gvc: replay of the counterexample of obligation\n//   %s\n// on the real code.  Run with:\n//   cd %s && go test -overlay <ov.json> -vet=off -count=1 -timeout 60s -run TestZZVerifReplay ./%s\n", r.Name, repo, strings.TrimPrefix(fn.Pkg.Pkg.Path(), modPath+"/"))
	fmt.Fprintf(&b, "package %s\n\nimport (\n\t\"fmt\"\n\t\"reflect\"\n\t\"testing\"\n)\n\nvar _ = reflect.DeepEqual\n\n", fn.Pkg.Pkg.Name())
	b.WriteString("func TestZZVerifReplay(t *testing.T) {\n")
	b.WriteString("\tok := true\n\tdiverged := func(what string, got, want any) { ok = false; fmt.Printf(\"REPLAY-DIVERGED %s: real code %+v, model %+v\\n\", what, got, want) }\n\t_ = diverged\n\t_ = ok\n")
	for _, s := range pre.stmts {
		b.WriteString("\t" + s + "\n")
	}
	for i := 0; i < nres; i++ {
		fmt.Fprintf(&b, "\tvar r%d %s\n", i, pre.typeStr(fn.Signature.Results().At(i).Type()))
	}
	b.WriteString("\tpanicked := func() (p any) {\n\t\tdefer func() { p = recover() }()\n\t\t")
	if nres > 0 {
		b.WriteString(strings.Join(lhs, ", ") + " = ")
	}
	b.WriteString(call + "\n\t\treturn nil\n\t}()\n")
	for i := 0; i < nres; i++ {
		fmt.Fprintf(&b, "\t_ = r%d\n", i)
	}
	if wantPanic {
		b.WriteString("\tif panicked != nil {\n\t\tfmt.Printf(\"REPLAY-CONFIRMED: the real code panics: %v\\n\", panicked)\n\t\treturn\n\t}\n\tfmt.Println(\"REPLAY-DIVERGED: the real code does not panic on the model's input\")\n\tt.Fail()\n")
	} else {
		b.WriteString("\tif panicked != nil {\n\t\tfmt.Printf(\"REPLAY-DIVERGED: the real code panics: %v\\n\", panicked)\n\t\tt.Fail()\n\t\treturn\n\t}\n")
		for _, s := range post.stmts {
			b.WriteString("\t" + s + "\n")
		}
		for _, c := range checks {
			b.WriteString("\t" + c + "\n")
		}
		b.WriteString("\tif ok {\n\t\tfmt.Println(\"REPLAY-CONFIRMED: the real code computes exactly the results and post-state of the solver's model, in which the obligation is false\")\n\t} else {\n\t\tt.Fail()\n\t}\n")
	}
	b.WriteString("}\n")
	src = b.String()
	// run it
	pkgDir := filepath.Join(repo, strings.TrimPrefix(fn.Pkg.Pkg.Path(), modPath+"/"))
	testFile := filepath.Join(tmp, "zz_verif_replay_test.go")
	os.WriteFile(testFile, []byte(src), 0o644)
	ov := map[string]any{"Replace": map[string]string{filepath.Join(pkgDir, "zz_verif_replay_test.go"): testFile}}
	ovb, _ := json.Marshal(ov)
	ovFile := filepath.Join(tmp, "ov.json")
	os.WriteFile(ovFile, ovb, 0o644)
	cmd := exec.Command("go", "test", "-overlay", ovFile, "-vet=off", "-count=1", "-v", "-timeout", "60s", "-run", "TestZZVerifReplay", "./"+strings.TrimPrefix(fn.Pkg.Pkg.Path(), modPath+"/"))
	cmd.Dir = repo
	cmd.Env = goEnv()
	out, _ := cmd.CombinedOutput()
	log += string(out)
	confirmed = strings.Contains(string(out), "REPLAY-CONFIRMED")
	return src, confirmed, log
}

// writeReplay writes the replay artefact for a failed obligation and
// reports whether the counterexample was confirmed on the real code.
func writeReplay(e *Eng, dir string, r ObResult, repo string) (string, bool) {
	var b strings.Builder
	fmt.Fprintf(&b, "obligation: %s\nclass: %s\nat: %s\nclause: %s\nstatus: %s\n\n", r.Name, r.Class, r.Pos, r.Text, r.Status)
	fmt.Fprintf(&b, "solver output:\n%s\n\n", r.Output)
	confirmed := false
	base := filepath.Join(dir, sanitize(r.Name))
	if r.Status == "failed" && r.ctx != nil {
		b.WriteString("counterexample (values of parameters, results and watched terms in the solver's model):\n")
		b.WriteString(explain(r.ctx, r.idx))
		src, ok, log := replayObligation(e, r, repo)
		confirmed = ok
		if src != "" {
			os.WriteFile(base+"_test.go.txt", []byte(src), 0o644)
			fmt.Fprintf(&b, "\nreplay test: %s_test.go.txt\n", base)
		}
		fmt.Fprintf(&b, "\nreplay log:\n%s\n", log)
		if ok {
			b.WriteString("\nRESULT: counterexample confirmed on the real code\n")
		} else {
			b.WriteString("\nRESULT: no-failing-input-found (the model could not be replayed or the real code diverged from it)\n")
		}
	} else {
		b.WriteString("the solver gave no model (unknown / timeout): no-failing-input-found\n")
	}
	path := base + ".txt"
	if r.ctx != nil {
		os.WriteFile(base+".smt2", []byte(buildQuery(r.ctx, r.idx, true, false)), 0o644)
		fmt.Fprintf(&b, "\nSMT-LIB query of the obligation: %s.smt2\n", base)
	}
	os.WriteFile(path, []byte(b.String()), 0o644)
	return path, confirmed
}

var _ = sort.Strings

func isSyncType(t types.Type) bool {
	n, ok := t.(*types.Named)
	return ok && n.Obj().Pkg() != nil && (n.Obj().Pkg().Path() == "sync" || n.Obj().Pkg().Path() == "sync/atomic")
}

// isZeroish reports whether a generated Go expression denotes a zero value
// (every atom is 0, false, "" or nil).
func isZeroish(e string) bool {
	if strings.HasSuffix(e, "{}") && !strings.Contains(e, "(") {
		return true
	}
	if e == "0" || e == "false" {
		return true
	}
	if !strings.Contains(e, "(") {
		return false
	}
	rest := e
	for {
		i := strings.Index(rest, "(")
		if i < 0 {
			return true
		}
		j := strings.Index(rest[i:], ")")
		if j < 0 {
			return false
		}
		atom := rest[i+1 : i+j]
		if strings.Contains(atom, "(") {
			// nested: type conversion like (*T)(nil)
			rest = rest[i+1:]
			continue
		}
		switch atom {
		case "0", "false", "\"\"", "nil":
		default:
			if !strings.HasPrefix(atom, "*") && !strings.HasPrefix(atom, "[]") {
				return false
			}
		}
		rest = rest[i+j+1:]
	}
}
