package main

// Maps, builtins (len, cap, copy, append, delete, min, max).

import (
	"fmt"
	"go/types"
	"strings"

	"golang.org/x/tools/go/ssa"
)

// Map heaps are created lazily; keys in State.heaps:
//   map:has:<K>          Array Int (Array K Bool)
//   map:val:<K>:<p>:<S>  Array Int (Array K S)   (p = leaf position in the value)
//   map:len              Array Int BV64

func (f *FnEnc) mapHeapSort(key string) string {
	parts := strings.Split(key, ":")
	switch parts[1] {
	case "ghost": // map:ghost:<name>  -- a ghost integer attached to every object (by reference)
		return "(Array Int (_ BitVec 64))"
	case "has":
		return fmt.Sprintf("(Array Int (Array %s Bool))", unsortKey(parts[2]))
	case "val":
		return fmt.Sprintf("(Array Int (Array %s %s))", unsortKey(parts[2]), unsortKey(parts[4]))
	case "len":
		return "(Array Int (_ BitVec 64))"
	case "rangevis": // map:rangevis:<K>:<id>  -- the keys a range-over-map loop has produced so far
		return fmt.Sprintf("(Array %s Bool)", unsortKey(parts[2]))
	}
	panic("bad map heap key " + key)
}

func sortKey(s string) string { return className(s) }
func unsortKey(s string) string {
	switch s {
	case "Bool":
		return SBool
	case "Int":
		return SInt
	case "Str":
		return SStr
	}
	var w int
	fmt.Sscanf(s, "BV%d", &w)
	return bvSort(w)
}

// lazyHeap returns the term of a lazily created heap in state st.
func (f *FnEnc) lazyHeap(st *State, key string) string {
	if h, ok := st.heaps[key]; ok {
		return h
	}
	ep := st.epoch
	if strings.HasPrefix(key, "map:ghost:") {
		ep = st.gepoch
	}
	name := fmt.Sprintf("%s@%d", sanitize(key), ep)
	if !f.c.ufs[name] {
		f.c.ufs[name] = true
		f.c.raw(fmt.Sprintf("(declare-const %s %s)", name, f.heapSortOf(key)))
	}
	setHeap(st, key, name)
	return name
}

func (f *FnEnc) mapKeySort(mt *types.Map) string {
	ks := f.l.leafSorts(mt.Key())
	if len(ks) != 1 {
		unsupp("map key type %s", mt.Key())
	}
	return ks[0]
}

func (f *FnEnc) mapHasKey(mt *types.Map) string {
	return "map:has:" + sortKey(f.mapKeySort(mt))
}
func (f *FnEnc) mapValKey(mt *types.Map, p int, s string) string {
	return fmt.Sprintf("map:val:%s:%d:%s", sortKey(f.mapKeySort(mt)), p, sortKey(s))
}

func (f *FnEnc) mapInit(st *State, t types.Type, ref string) {
	f.noteWrite(writeRec{Kind: "map", Ref: ref})
	mt := t.Underlying().(*types.Map)
	ks := f.mapKeySort(mt)
	hk := f.mapHasKey(mt)
	h := f.lazyHeap(st, hk)
	setHeap(st, hk, f.c.define("Mhas", f.heapSortOf(hk), sto(h, ref, fmt.Sprintf("((as const (Array %s Bool)) false)", ks))))
	l := f.lazyHeap(st, "map:len")
	setHeap(st, "map:len", f.c.define("Mlen", f.heapSortOf("map:len"), sto(l, ref, bv64(0))))
}

// mapGet returns (has, value) for key k.
func (f *FnEnc) mapGet(st *State, mt *types.Map, ref, k string) (string, Val) {
	has := sel(sel(f.lazyHeap(st, f.mapHasKey(mt)), ref), k)
	vs := f.l.leafSorts(mt.Elem())
	v := Val{T: mt.Elem(), L: make([]string, len(vs))}
	for p, so := range vs {
		v.L[p] = sel(sel(f.lazyHeap(st, f.mapValKey(mt, p, so)), ref), k)
	}
	return has, v
}

func (f *FnEnc) mapLen(st *State, ref string) string {
	return sel(f.lazyHeap(st, "map:len"), ref)
}

func (f *FnEnc) lookup(fr *Frame, st *State, R string, in *ssa.Lookup) {
	x := f.val(fr, in.X)
	if isString(x.T) {
		i := f.toIdx(f.val(fr, in.Index))
		f.safety("index", R, "(bvult "+i+" (slen "+x.L[0]+"))", in.Pos())
		f.setVal(fr, in, Val{T: in.Type(), L: []string{"(sbyte " + x.L[0] + " " + i + ")"}})
		return
	}
	mt := x.T.Underlying().(*types.Map)
	k := f.val(fr, in.Index)
	f.guardedAccess(fr, st, R, in.X, false)
	has0, v := f.mapGet(st, mt, x.L[0], k.L[0])
	has := f.c.define("has", SBool, and(not(eq(x.L[0], "0")), has0))
	z := f.zero(mt.Elem())
	out := Val{T: in.Type()}
	for i := range v.L {
		out.L = append(out.L, ite(has, v.L[i], z.L[i]))
	}
	if in.CommaOk {
		out.L = append(out.L, has)
	}
	// values stored in maps are well-formed Go values
	f.c.assume(R, implies(has, f.wf(st, v)))
	f.setVal(fr, in, out)
}

func (f *FnEnc) mapUpdate(fr *Frame, st *State, R string, in *ssa.MapUpdate) {
	m := f.val(fr, in.Map)
	mt := m.T.Underlying().(*types.Map)
	k := f.val(fr, in.Key)
	v := f.val(fr, in.Value)
	f.safety("nilmap", R, not(eq(m.L[0], "0")), in.Pos())
	f.guardedAccess(fr, st, R, in.Map, true)
	f.mapStore(st, mt, m.L[0], k.L[0], v)
}

func (f *FnEnc) mapStore(st *State, mt *types.Map, ref, k string, v Val) {
	f.noteWrite(writeRec{Kind: "map", Ref: ref})
	hk := f.mapHasKey(mt)
	hh := f.lazyHeap(st, hk)
	had := sel(sel(hh, ref), k)
	ln := f.lazyHeap(st, "map:len")
	setHeap(st, "map:len", f.c.define("Mlen", f.heapSortOf("map:len"), sto(ln, ref, ite(had, sel(ln, ref), "(bvadd "+sel(ln, ref)+" "+bv64(1)+")"))))
	setHeap(st, hk, f.c.define("Mhas", f.heapSortOf(hk), sto(hh, ref, sto(sel(hh, ref), k, "true"))))
	vs := f.l.leafSorts(mt.Elem())
	for p, so := range vs {
		vk := f.mapValKey(mt, p, so)
		vh := f.lazyHeap(st, vk)
		setHeap(st, vk, f.c.define("Mval", f.heapSortOf(vk), sto(vh, ref, sto(sel(vh, ref), k, v.L[p]))))
	}
}

func (f *FnEnc) mapDelete(st *State, mt *types.Map, ref, k string) {
	f.noteWrite(writeRec{Kind: "map", Ref: ref})
	hk := f.mapHasKey(mt)
	hh := f.lazyHeap(st, hk)
	had := and(not(eq(ref, "0")), sel(sel(hh, ref), k))
	ln := f.lazyHeap(st, "map:len")
	setHeap(st, "map:len", f.c.define("Mlen", f.heapSortOf("map:len"), sto(ln, ref, ite(had, "(bvsub "+sel(ln, ref)+" "+bv64(1)+")", sel(ln, ref)))))
	setHeap(st, hk, f.c.define("Mhas", f.heapSortOf(hk), sto(hh, ref, sto(sel(hh, ref), k, "false"))))
}

// next models one step of a range over a map or string: an arbitrary
// present key (maps) or position (strings); "each exactly once" is not
// modelled.
func (f *FnEnc) next(fr *Frame, st *State, R string, in *ssa.Next) {
	it := f.val(fr, in.Iter)
	rng := in.Iter.(*ssa.Range)
	xt := rng.X.Type()
	tup := in.Type().(*types.Tuple)
	ok := f.c.fresh("next_ok", SBool)
	out := Val{T: in.Type(), L: []string{ok}}
	if in.IsString {
		i := f.c.fresh("next_i", SBV64)
		r := f.c.fresh("next_r", SBV32)
		f.c.assume(R, implies(ok, "(bvult "+i+" (slen "+it.L[0]+"))"))
		out.L = append(out.L, i, r)
		f.setVal(fr, in, out)
		return
	}
	mt := xt.Underlying().(*types.Map)
	f.c.notes["range over map: each step yields a present key not produced before; a loop that writes no map of that type ends when every key has been produced"] = true
	kT := tup.At(1).Type()
	vT := tup.At(2).Type()
	ks := f.mapKeySort(mt)
	k := f.c.fresh("next_k", ks)
	has, v := f.mapGet(st, mt, it.L[0], k)
	f.c.assume(R, implies(ok, and(not(eq(it.L[0], "0")), has)))
	// the set of keys produced so far (specification-only state of the loop)
	vk := f.rangeVisKey(fr, rng, mt)
	vis := f.lazyHeap(st, vk)
	f.c.assume(R, implies(ok, not(sel(vis, k))))
	// Completeness: when the loop ends every key has been produced.  Go only
	// promises that for entries present throughout (an entry removed and
	// created again during the iteration may be skipped), so the fact is
	// assumed only for a loop whose body has no map update or delete on that
	// map type, and under the hypothesis that the map has the same keys as
	// when the range statement started.  (A callee that removes a key and
	// puts it back, under a contract saying the keys are unchanged, is not
	// seen: listed as an assumption.)
	if hs, okh := f.rangeStartHas[vk]; okh && !f.loopWritesMap(fr, in.Block(), mt) {
		f.c.notes["range over map: a loop with no update or delete of that map type in its body, ending with the key set it started with, has produced every key (callees are taken at their contracts)"] = true
		hasNow := f.c.fresh("rhas1", fmt.Sprintf("(Array %s Bool)", ks))
		f.c.assume("true", eq(hasNow, sel(f.lazyHeap(st, f.mapHasKey(mt)), it.L[0])))
		same := fmt.Sprintf("(forall ((k!q %s)) (! (= (select %s k!q) (select %s k!q)) :pattern ((select %s k!q))))", ks, hs, hasNow, hasNow)
		all := fmt.Sprintf("(forall ((k!q %s)) (! (=> (select %s k!q) (select %s k!q)) :pattern ((select %s k!q)) :pattern ((select %s k!q))))", ks, hs, vis, vis, hs)
		f.c.assume(R, implies(and(not(ok), same), all))
	}
	setHeap(st, vk, f.c.define("rvis", fmt.Sprintf("(Array %s Bool)", ks), ite(ok, sto(vis, k, "true"), vis)))
	f.c.assume(R, implies(ok, f.wf(st, Val{T: mt.Key(), L: []string{k}})))
	f.c.assume(R, implies(ok, f.wf(st, v)))
	if _, inv := kT.(*types.Basic); inv && kT.(*types.Basic).Kind() == types.Invalid {
		// key unused
	}
	out.L = append(out.L, f.zeroOrVal(kT, Val{T: mt.Key(), L: []string{k}}).L...)
	out.L = append(out.L, f.zeroOrVal(vT, v).L...)
	f.setVal(fr, in, out)
}

// loopWritesMap: does the loop headed by block head contain a map update or a
// delete on a map with mt's key type?
func (f *FnEnc) loopWritesMap(fr *Frame, head *ssa.BasicBlock, mt *types.Map) bool {
	ks := f.mapKeySort(mt)
	for _, li := range fr.loops {
		if li.head != head {
			continue
		}
		for b := range li.body {
			for _, in := range b.Instrs {
				switch in := in.(type) {
				case *ssa.MapUpdate:
					if m, ok := in.Map.Type().Underlying().(*types.Map); ok && f.mapKeySort(m) == ks {
						return true
					}
				case ssa.CallInstruction:
					if b, ok := in.Common().Value.(*ssa.Builtin); ok && (b.Name() == "delete" || b.Name() == "clear") {
						return true
					}
				}
			}
		}
		return false
	}
	return true
}

// rangeVisKey names the visited-set of one range-over-map statement.
func (f *FnEnc) rangeVisKey(fr *Frame, rng *ssa.Range, mt *types.Map) string {
	return fmt.Sprintf("map:rangevis:%s:%s_%s_d%d", sortKey(f.mapKeySort(mt)), sanitize(fr.fn.Name()), rng.Name(), fr.depth)
}

// rangeStart initialises the visited-set when the range statement is entered.
func (f *FnEnc) rangeStart(fr *Frame, st *State, R string, rng *ssa.Range) {
	mt, ok := rng.X.Type().Underlying().(*types.Map)
	if !ok {
		return
	}
	ks := f.mapKeySort(mt)
	vk := f.rangeVisKey(fr, rng, mt)
	setHeap(st, vk, fmt.Sprintf("((as const (Array %s Bool)) false)", ks))
	if f.rangeStartHas == nil {
		f.rangeStartHas = map[string]string{}
	}
	x := f.val(fr, rng.X)
	// which keys the map has when the loop starts
	h0 := f.c.fresh("rhas0", fmt.Sprintf("(Array %s Bool)", ks)) // (a constant, not a definition: it appears in patterns)
	f.c.assume("true", eq(h0, ite(eq(x.L[0], "0"), fmt.Sprintf("((as const (Array %s Bool)) false)", ks), sel(f.lazyHeap(st, f.mapHasKey(mt)), x.L[0]))))
	f.rangeStartHas[vk] = h0
}

func (f *FnEnc) zeroOrVal(want types.Type, v Val) Val {
	if b, ok := want.(*types.Basic); ok && b.Kind() == types.Invalid {
		return Val{T: want}
	}
	return v
}

// ------------------------------------------------------------ builtins

func (f *FnEnc) builtin(fr *Frame, st *State, R string, in ssa.Value, b *ssa.Builtin, args []Val, call *ssa.CallCommon) (Val, bool) {
	rt := types.Type(nil)
	if in != nil {
		rt = in.Type()
	}
	switch b.Name() {
	case "len":
		x := args[0]
		switch u := x.T.Underlying().(type) {
		case *types.Slice:
			return Val{T: rt, L: []string{x.L[3]}}, true
		case *types.Basic:
			return Val{T: rt, L: []string{"(slen " + x.L[0] + ")"}}, true
		case *types.Map:
			l := f.c.define("maplen", SBV64, ite(eq(x.L[0], "0"), bv64(0), f.mapLen(st, x.L[0])))
			f.c.assume(R, "(bvult "+l+" "+bv64(maxLen)+")")
			return Val{T: rt, L: []string{l}}, true
		case *types.Array:
			return Val{T: rt, L: []string{bv64(u.Len())}}, true
		case *types.Pointer:
			return Val{T: rt, L: []string{bv64(u.Elem().Underlying().(*types.Array).Len())}}, true
		case *types.Chan:
			v := f.freshVal("chanlen", rt)
			f.c.assume(R, "(bvult "+v.L[0]+" "+bv64(maxLen)+")")
			return v, true
		}
	case "cap":
		x := args[0]
		switch u := x.T.Underlying().(type) {
		case *types.Slice:
			return Val{T: rt, L: []string{x.L[4]}}, true
		case *types.Array:
			return Val{T: rt, L: []string{bv64(u.Len())}}, true
		case *types.Pointer:
			return Val{T: rt, L: []string{bv64(u.Elem().Underlying().(*types.Array).Len())}}, true
		case *types.Chan:
			v := f.freshVal("chancap", rt)
			f.c.assume(R, "(bvult "+v.L[0]+" "+bv64(maxLen)+")")
			return v, true
		}
	case "copy":
		f.guardedElems(fr, st, R, args[0].L[0], call.Pos(), "write")
		if !isString(args[1].T) {
			f.guardedElems(fr, st, R, args[1].L[0], call.Pos(), "read")
		}
		return Val{T: rt, L: []string{f.copyOp(st, R, args[0], args[1])}}, true
	case "append":
		return f.appendOp(st, R, args[0], args[1], rt), true
	case "delete":
		mt := args[0].T.Underlying().(*types.Map)
		f.guardedAccess(fr, st, R, call.Args[0], true)
		f.mapDelete(st, mt, args[0].L[0], args[1].L[0])
		return Val{}, true
	case "min", "max":
		cur := args[0]
		for _, a := range args[1:] {
			var c string
			if isFloat(cur.T) || isString(cur.T) {
				unsupp("min/max on %s", cur.T)
			}
			op := "bvult"
			if isSigned(cur.T) {
				op = "bvslt"
			}
			if b.Name() == "min" {
				c = "(" + op + " " + a.L[0] + " " + cur.L[0] + ")"
			} else {
				c = "(" + op + " " + cur.L[0] + " " + a.L[0] + ")"
			}
			cur = Val{T: cur.T, L: []string{ite(c, a.L[0], cur.L[0])}}
		}
		return Val{T: rt, L: cur.L}, true
	case "print", "println":
		return Val{}, true
	case "close":
		return Val{}, true
	case "ssa:wrapnilchk":
		f.safety("nil", R, not(eq(args[0].L[0], "0")), call.Pos())
		return Val{T: rt, L: args[0].L}, true
	case "ssa:deferstack":
		return f.zero(rt), true
	case "clear":
		switch u := args[0].T.Underlying().(type) {
		case *types.Map:
			f.noteWrite(writeRec{Kind: "map", Ref: args[0].L[0]})
			hk := f.mapHasKey(u)
			hh := f.lazyHeap(st, hk)
			setHeap(st, hk, f.c.define("Mhas", f.heapSortOf(hk), sto(hh, args[0].L[0], fmt.Sprintf("((as const (Array %s Bool)) false)", f.mapKeySort(u)))))
			ln := f.lazyHeap(st, "map:len")
			setHeap(st, "map:len", f.c.define("Mlen", f.heapSortOf("map:len"), sto(ln, args[0].L[0], bv64(0))))
			return Val{}, true
		}
	case "recover":
		return f.zero(rt), true
	}
	unsupp("builtin %s on %v", b.Name(), call.Args)
	return Val{}, false
}

// copyOp models copy(dst, src) (memmove semantics) and returns the count.
func (f *FnEnc) copyOp(st *State, R string, dst, src Val) string {
	var n string
	dl := dst.L[3]
	var sl string
	fromString := isString(src.T)
	if fromString {
		sl = "(slen " + src.L[0] + ")"
	} else {
		sl = src.L[3]
	}
	n = f.c.define("ncopy", SBV64, ite("(bvult "+dl+" "+sl+")", dl, sl))
	et := dst.T.Underlying().(*types.Slice).Elem()
	if f.l.oneCell(et) {
		so := f.l.leafSorts(et)[0]
		h := f.heap(st, so)
		f.noteWrite(writeRec{Class: so, Kind: "subrange", Ref: dst.L[0], Idx: dst.L[1], Sub: dst.L[2], SubHi: bvadd(dst.L[2], n)})
		dmid := f.c.define("dmid", midSort(so), sel(h, dst.L[0]))
		dinner := f.c.define("dinner", innerSort(so), sel(dmid, dst.L[1]))
		var srcAt string
		if fromString {
			srcAt = "(sbyte " + src.L[0] + " (bvsub k!l " + dst.L[2] + "))"
		} else {
			sinner := f.c.define("sinner", innerSort(so), sel(sel(h, src.L[0]), src.L[1]))
			srcAt = "(select " + sinner + " (bvadd (bvsub k!l " + dst.L[2] + ") " + src.L[2] + "))"
		}
		ninner := f.c.lambda(so, "(ite "+inRange("k!l", dst.L[2], bvadd(dst.L[2], n))+" "+srcAt+" (select "+dinner+" k!l))")
		setHeap(st, so, f.c.define("H"+className(so), heapSort(so), sto(h, dst.L[0], sto(dmid, dst.L[1], ninner))))
		return n
	}
	// multi-cell elements: whole inner arrays move along idx
	for _, so := range f.l.classesOf(et) {
		h := f.heap(st, so)
		f.noteWrite(writeRec{Class: so, Kind: "idxrange", Ref: dst.L[0], Idx: dst.L[1], IdxHi: bvadd(dst.L[1], n)})
		dmid := f.c.define("dmid", midSort(so), sel(h, dst.L[0]))
		smid := f.c.define("smid", midSort(so), sel(h, src.L[0]))
		nmid := f.c.lambda(innerSort(so), "(ite "+inRange("k!l", dst.L[1], bvadd(dst.L[1], n))+" (select "+smid+" (bvadd (bvsub k!l "+dst.L[1]+") "+src.L[1]+")) (select "+dmid+" k!l))")
		setHeap(st, so, f.c.define("H"+className(so), heapSort(so), sto(h, dst.L[0], nmid)))
	}
	return n
}

// appendOp models append(s, t...) exactly: in place when capacity allows,
// otherwise a fresh backing array.
func (f *FnEnc) appendOp(st *State, R string, s, t Val, rt types.Type) Val {
	et := s.T.Underlying().(*types.Slice).Elem()
	var tl string
	fromString := isString(t.T)
	if fromString {
		tl = "(slen " + t.L[0] + ")"
	} else {
		tl = t.L[3]
	}
	newLen := f.c.define("applen", SBV64, "(bvadd "+s.L[3]+" "+tl+")")
	fits := f.c.define("appfits", SBool, "(bvule "+newLen+" "+s.L[4]+")")
	// appending nothing returns s unchanged (even when nil)
	fresh := f.allocObj(st, et, R)
	newCap := f.c.fresh("appcap", SBV64)
	f.c.assume(R, and("(bvule "+newLen+" "+newCap+")", "(bvult "+newCap+" "+bv64(maxLen)+")"))
	ref := f.c.define("appref", SInt, ite(fits, s.L[0], fresh))
	one := f.l.oneCell(et)
	var ridx, rsub string
	if one {
		ridx = ite(fits, s.L[1], bv64(0))
		rsub = ite(fits, s.L[2], bv64(0))
	} else {
		ridx = ite(fits, s.L[1], bv64(0))
		rsub = bv64(0)
	}
	ridx = f.c.define("appidx", SBV64, ridx)
	rsub = f.c.define("appsub", SBV64, rsub)
	rcap := f.c.define("appcapr", SBV64, ite(fits, s.L[4], newCap))
	if one {
		so := f.l.leafSorts(et)[0]
		h := f.heap(st, so)
		// in place: cells [sub+len, sub+newLen) of s's array; otherwise a fresh object
		f.noteWrite(writeRec{Class: so, Kind: "subrange", Ref: ref, Idx: ridx, Sub: bvadd(rsub, s.L[3]), SubHi: bvadd(rsub, newLen)})
		smid := f.c.define("smid", midSort(so), sel(h, s.L[0]))
		sinner := f.c.define("sinner", innerSort(so), sel(smid, s.L[1]))
		var tAt string
		// position k in the result object; off = k - rsub
		off := "(bvsub k!l " + rsub + ")"
		if fromString {
			tAt = "(sbyte " + t.L[0] + " (bvsub " + off + " " + s.L[3] + "))"
		} else {
			tinner := f.c.define("tinner", innerSort(so), sel(sel(h, t.L[0]), t.L[1]))
			tAt = "(select " + tinner + " (bvadd (bvsub " + off + " " + s.L[3] + ") " + t.L[2] + "))"
		}
		oldAt := ite(fits, "(select "+sinner+" k!l)", ite("(bvult "+off+" "+s.L[3]+")", "(select "+sinner+" (bvadd "+s.L[2]+" "+off+"))", zeroOf(so)))
		ninner := f.c.lambda(so, "(ite (and (bvule "+s.L[3]+" "+off+") (bvult "+off+" "+newLen+")) "+tAt+" "+oldAt+")")
		nmid := ite(fits, sto(smid, s.L[1], ninner), fmt.Sprintf("((as const %s) %s)", midSort(so), ninner))
		setHeap(st, so, f.c.define("H"+className(so), heapSort(so), sto(h, ref, nmid)))
	} else {
		for _, so := range f.l.classesOf(et) {
			h := f.heap(st, so)
			f.noteWrite(writeRec{Class: so, Kind: "idxrange", Ref: ref, Idx: bvadd(ridx, s.L[3]), IdxHi: bvadd(ridx, newLen)})
			smid := f.c.define("smid", midSort(so), sel(h, s.L[0]))
			tmid := f.c.define("tmid", midSort(so), sel(h, t.L[0]))
			off := "(bvsub k!l " + ridx + ")"
			tAt := "(select " + tmid + " (bvadd (bvsub " + off + " " + s.L[3] + ") " + t.L[1] + "))"
			zinner := f.zeroInner(so)
			oldAt := ite(fits, "(select "+smid+" k!l)", ite("(bvult "+off+" "+s.L[3]+")", "(select "+smid+" (bvadd "+s.L[1]+" "+off+"))", zinner))
			nmid := f.c.lambda(innerSort(so), "(ite (and (bvule "+s.L[3]+" "+off+") (bvult "+off+" "+newLen+")) "+tAt+" "+oldAt+")")
			setHeap(st, so, f.c.define("H"+className(so), heapSort(so), sto(h, ref, nmid)))
		}
	}
	// append(nil-or-any, nothing) keeps s as is
	empty := eq(tl, bv64(0))
	out := Val{T: rt, L: []string{
		ite(empty, s.L[0], ref), ite(empty, s.L[1], ridx), ite(empty, s.L[2], rsub), newLen, ite(empty, s.L[4], rcap)}}
	return out
}
