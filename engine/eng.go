package main

import (
	"fmt"
	"go/ast"
	"go/token"
	"go/types"
	"os"
	"path/filepath"
	"sort"
	"strings"

	"golang.org/x/tools/go/packages"
	"golang.org/x/tools/go/ssa"
	"golang.org/x/tools/go/ssa/ssautil"
)

const modPath = "github.com/jech/galene"

type guardInfo struct {
	mu     string
	fields map[string]bool
	elems  map[string]bool // slice fields whose ELEMENTS are guarded too (declared `f[*]`)
}

// Eng holds the loaded program and all contracts.
type Eng struct {
	fset       *token.FileSet
	prog       *ssa.Program
	pkgs       map[string]*ssa.Package // by path
	tpkgs      map[string]*types.Package
	lay        *Layout
	contracts  map[string]*Contract // by fnKey
	ifaces     map[string]*Contract
	specFuncs  map[string]map[string]*SpecFunc // pkg path -> name
	lemmas     []*Lemma
	guarded    map[string]*guardInfo // typeKey
	fnByKey    map[string]*ssa.Function
	globals    map[*types.Var]*ssa.Global
	strContent bool
	lockChecks bool
	specFiles  []string
	repo       string
	verifDir   string
	objTypes   *ObjTypes
	watch      []string
	findings   []*Finding
	traceCalls bool
	globalInvs map[string][]Clause // package path -> package-level invariants
}

// findingsFor returns the recorded findings for an obligation base name.
func (e *Eng) findingsFor(name string) []*Finding {
	var out []*Finding
	for _, f := range e.findings {
		if f.Kind == "finding" && f.wexpr != nil && (f.Obligation == name) {
			out = append(out, f)
		}
	}
	return out
}

// collectObjTypes lists the multi-cell element types of slices that occur
// in the repository's own packages.
func (e *Eng) collectObjTypes() {
	o := &ObjTypes{keys: map[string]int{}, skeys: map[string]int{}}
	seen := map[string]bool{}
	nestedArr := map[string]bool{} // element types that occur in arrays nested in structs
	var visit func(t types.Type, inStruct bool)
	visit = func(t types.Type, inStruct bool) {
		k := types.TypeString(t, nil)
		if inStruct {
			k = "s:" + k
		}
		if seen[k] {
			return
		}
		seen[k] = true
		switch u := t.Underlying().(type) {
		case *types.Pointer:
			visit(u.Elem(), false)
		case *types.Slice:
			visit(u.Elem(), false)
			func() {
				defer func() { recover() }()
				if e.lay.cells(u.Elem()) != 1 {
					ek := types.TypeString(u.Elem(), nil)
					if _, ok := o.keys[ek]; !ok {
						o.keys[ek] = len(o.elems)
						o.elems = append(o.elems, u.Elem())
					}
				}
			}()
		case *types.Array:
			if inStruct && u.Len() > 1 {
				nestedArr[types.TypeString(u.Elem(), nil)] = true
			}
			visit(u.Elem(), inStruct)
		case *types.Struct:
			if n, ok := t.(*types.Named); ok && n.Obj().Pkg() != nil && strings.HasPrefix(n.Obj().Pkg().Path(), modPath) {
				sk := types.TypeString(t, nil)
				if _, ok := o.skeys[sk]; !ok {
					o.skeys[sk] = len(o.structs)
					o.structs = append(o.structs, t)
				}
			}
			for i := 0; i < u.NumFields(); i++ {
				visit(u.Field(i).Type(), true)
			}
		case *types.Map:
			visit(u.Key(), false)
			visit(u.Elem(), false)
		case *types.Chan:
			visit(u.Elem(), false)
		case *types.Signature:
			for i := 0; i < u.Params().Len(); i++ {
				visit(u.Params().At(i).Type(), false)
			}
			for i := 0; i < u.Results().Len(); i++ {
				visit(u.Results().At(i).Type(), false)
			}
		case *types.Tuple:
			for i := 0; i < u.Len(); i++ {
				visit(u.At(i).Type(), false)
			}
		}
	}
	var fkeys []string
	for k := range e.fnByKey {
		fkeys = append(fkeys, k)
	}
	sort.Strings(fkeys)
	for _, fk := range fkeys {
		fn := e.fnByKey[fk]
		if fn.Pkg == nil || !strings.HasPrefix(fn.Pkg.Pkg.Path(), modPath) {
			continue
		}
		visit(fn.Signature, false)
		for _, b := range fn.Blocks {
			for _, in := range b.Instrs {
				if v, ok := in.(ssa.Value); ok {
					visit(v.Type(), false)
				}
			}
		}
	}
	// an element type that also occurs in an array nested in a struct may
	// be the target of a slice into that struct: no tag for it
	for k := range nestedArr {
		if i, ok := o.keys[k]; ok {
			delete(o.keys, k)
			o.elems[i] = nil
		}
	}
	e.objTypes = o
}

func (e *Eng) fnKey(fn *ssa.Function) string {
	s := fn.String()
	s = strings.ReplaceAll(s, modPath+"/", "")
	return s
}

func (e *Eng) contractOf(fn *ssa.Function) *Contract {
	return e.contracts[e.fnKey(fn)]
}

func (e *Eng) ifaceContract(key string) *Contract { return e.ifaces[key] }

func (e *Eng) specFunc(pkg *types.Package, name string) *SpecFunc {
	if pkg != nil {
		if m := e.specFuncs[pkg.Path()]; m != nil {
			if sf := m[name]; sf != nil {
				return sf
			}
		}
	}
	if i := strings.Index(name, "."); i > 0 {
		// qualified: pkgname.func
		for path, m := range e.specFuncs {
			if pkgShort(path) == name[:i] {
				if sf := m[name[i+1:]]; sf != nil {
					return sf
				}
			}
		}
	}
	if m := e.specFuncs[""]; m != nil {
		return m[name]
	}
	return nil
}

func (e *Eng) typesPkg(path string, fallback *types.Package) *types.Package {
	if path == "" {
		return fallback
	}
	if p, ok := e.tpkgs[path]; ok {
		return p
	}
	return fallback
}

func (e *Eng) pkgByName(name string) *types.Package {
	var best *types.Package
	for path, p := range e.tpkgs {
		if p.Name() == name {
			if strings.HasPrefix(path, modPath) {
				return p
			}
			best = p
		}
	}
	return best
}

func (e *Eng) globalOf(v *types.Var) *ssa.Global {
	if g, ok := e.globals[v]; ok {
		return g
	}
	if v.Pkg() == nil {
		return nil
	}
	sp := e.prog.Package(v.Pkg())
	if sp == nil {
		return nil
	}
	g, _ := sp.Members[v.Name()].(*ssa.Global)
	e.globals[v] = g
	return g
}

func (e *Eng) guardedFor(n *types.Named) *guardInfo { return e.guarded[typeKey(n)] }

func goEnv() []string {
	env := os.Environ()
	env = append(env, "GOFLAGS=-mod=mod", "GOPROXY=off", "GONOSUMDB=golang.org/x,github.com,gopkg.in,honnef.co,pgregory.net", "GOTOOLCHAIN=auto")
	return env
}

// load loads the given package patterns of the repository with the verif
// build tag and builds NaiveForm SSA.
func load(repo, verifDir string, patterns []string) (*Eng, error) {
	fset := token.NewFileSet()
	cfg := &packages.Config{Mode: packages.LoadAllSyntax, Dir: repo, BuildFlags: []string{"-tags=verif"}, Fset: fset, Env: goEnv()}
	pkgs, err := packages.Load(cfg, patterns...)
	if err != nil {
		return nil, err
	}
	var errs []string
	packages.Visit(pkgs, nil, func(p *packages.Package) {
		for _, e := range p.Errors {
			errs = append(errs, e.Error())
		}
	})
	if len(errs) > 0 {
		return nil, fmt.Errorf("load errors:\n%s", strings.Join(errs, "\n"))
	}
	prog, _ := ssautil.AllPackages(pkgs, ssa.NaiveForm|ssa.GlobalDebug|ssa.InstantiateGenerics)
	prog.Build()
	e := &Eng{fset: fset, prog: prog, pkgs: map[string]*ssa.Package{}, tpkgs: map[string]*types.Package{}, lay: newLayout(),
		contracts: map[string]*Contract{}, ifaces: map[string]*Contract{}, specFuncs: map[string]map[string]*SpecFunc{},
		guarded: map[string]*guardInfo{}, fnByKey: map[string]*ssa.Function{}, globals: map[*types.Var]*ssa.Global{}, repo: repo, verifDir: verifDir, lockChecks: true}
	for _, sp := range prog.AllPackages() {
		e.pkgs[sp.Pkg.Path()] = sp
		e.tpkgs[sp.Pkg.Path()] = sp.Pkg
	}
	// index functions
	for fn := range ssautil.AllFunctions(prog) {
		if fn.Synthetic != "" && fn.Pkg == nil {
			continue
		}
		e.fnByKey[e.fnKey(fn)] = fn
	}
	// instantiated generics and other callees reached only through calls
	for fn := range ssautil.AllFunctions(prog) {
		if fn.Pkg == nil || !strings.HasPrefix(fn.Pkg.Pkg.Path(), modPath) {
			continue
		}
		for _, b := range fn.Blocks {
			for _, in := range b.Instrs {
				if c, ok := in.(ssa.CallInstruction); ok {
					if sf := c.Common().StaticCallee(); sf != nil {
						if k := e.fnKey(sf); e.fnByKey[k] == nil {
							e.fnByKey[k] = sf
						}
					}
				}
			}
		}
	}
	e.collectObjTypes()
	// contract files: comment-only verif_contracts.go in repo packages
	var specs []*SpecFile
	packages.Visit(pkgs, nil, func(p *packages.Package) {
		if !strings.HasPrefix(p.PkgPath, modPath) {
			return
		}
		for i, file := range p.Syntax {
			name := p.CompiledGoFiles[i]
			if filepath.Base(name) != "verif_contracts.go" {
				continue
			}
			if len(file.Decls) != 0 {
				errs = append(errs, fmt.Sprintf("%s: contract file must contain no declarations (has %d)", name, len(file.Decls)))
				continue
			}
			sf, err := loadSpecFile(p.PkgPath, name)
			if err != nil {
				errs = append(errs, err.Error())
				continue
			}
			e.specFiles = append(e.specFiles, name)
			specs = append(specs, sf)
		}
		_ = ast.File{}
	})
	// trusted table
	tfiles, _ := filepath.Glob(filepath.Join(verifDir, "trusted", "*.spec"))
	sort.Strings(tfiles)
	for _, tf := range tfiles {
		sf, err := loadSpecFile("", tf)
		if err != nil {
			errs = append(errs, err.Error())
			continue
		}
		for _, c := range sf.Funcs {
			c.Trusted = true
		}
		e.specFiles = append(e.specFiles, tf)
		specs = append(specs, sf)
	}
	if len(errs) > 0 {
		return nil, fmt.Errorf("contract errors:\n%s", strings.Join(errs, "\n"))
	}
	for _, sf := range specs {
		for _, g := range sf.Ghosts {
			var key string
			var tp *types.Package
			if strings.Contains(g.Type, "/") || sf.Pkg == "" {
				key = g.Type // fully qualified, e.g. sync.Mutex
				if i := strings.LastIndex(g.Type, "."); i > 0 {
					tp = e.tpkgs[g.Type[:i]]
				}
			} else {
				key = sf.Pkg + "." + g.Type
				tp = e.tpkgs[sf.Pkg]
			}
			se := &SpecEnv{f: &FnEnc{eng: e}, pkg: tp}
			var ft types.Type
			func() {
				defer func() {
					if r := recover(); r != nil {
						errs = append(errs, fmt.Sprintf("ghost field %s.%s: %v", g.Type, g.Field, r))
					}
				}()
				ft = se.resolveType(g.FType)
			}()
			if ft != nil {
				e.lay.ghost[key] = append(e.lay.ghost[key], ghostField{Name: g.Field, T: ft})
			}
		}
		for _, g := range sf.Guarded {
			key := sf.Pkg + "." + g.Type
			gi := &guardInfo{mu: g.Mu, fields: map[string]bool{}, elems: map[string]bool{}}
			for _, f := range g.Fields {
				if strings.HasSuffix(f, "[*]") {
					f = strings.TrimSuffix(f, "[*]")
					gi.elems[f] = true
				}
				gi.fields[f] = true
			}
			e.guarded[key] = gi
		}
		if e.specFuncs[sf.Pkg] == nil {
			e.specFuncs[sf.Pkg] = map[string]*SpecFunc{}
		}
		for n, s := range sf.SpecFuncs {
			e.specFuncs[sf.Pkg][n] = s
		}
		e.lemmas = append(e.lemmas, sf.Lemmas...)
		for _, g := range sf.Globals {
			if e.globalInvs == nil {
				e.globalInvs = map[string][]Clause{}
			}
			e.globalInvs[g.Pkg] = append(e.globalInvs[g.Pkg], g.Clause)
		}
		for k, c := range sf.Funcs {
			key := k
			if sf.Pkg != "" && !c.Extern {
				key = qualifyKey(sf.Pkg, k)
			}
			c.Key = key
			if _, dup := e.contracts[key]; dup {
				errs = append(errs, fmt.Sprintf("%s:%d: duplicate contract for %s", c.File, c.Line, key))
			}
			e.contracts[key] = c
		}
		for k, c := range sf.Ifaces {
			e.ifaces[k] = c
		}
	}
	// every in-repo contract must name an existing function
	for key, c := range e.contracts {
		if c.Pkg == "" || c.Extern {
			continue
		}
		if e.fnByKey[key] == nil {
			errs = append(errs, fmt.Sprintf("%s:%d: contract target %s does not exist", c.File, c.Line, key))
		}
	}
	if len(errs) > 0 {
		return nil, fmt.Errorf("contract errors:\n%s", strings.Join(errs, "\n"))
	}
	return e, nil
}

// qualifyKey turns a package-relative function name into the fnKey form:
//
//	compare          -> packetmap.compare
//	(*Map).Drop      -> (*packetmap.Map).Drop
//	(Map).Foo        -> (packetmap.Map).Foo
//	Keyframe$1       -> codecs.Keyframe$1
func qualifyKey(pkg, k string) string {
	rel := strings.TrimPrefix(pkg, modPath+"/")
	if strings.HasPrefix(k, "(*") {
		return "(*" + rel + "." + k[2:]
	}
	if strings.HasPrefix(k, "(") {
		return "(" + rel + "." + k[1:]
	}
	return rel + "." + k
}
