package main

import (
	"flag"
	"fmt"
	"go/types"
	"os"
	"regexp"
	"runtime"
	"sort"
	"strings"

	"golang.org/x/tools/go/ssa"
)

// cmdSweep: development aid (not a registered check).  Every function of the
// named packages that is NOT verified under a contract gets a synthetic one -
// safe, modifies *, pointer parameters non-nil - and only the obligations of
// the chosen classes (by default the ones that do not depend on what callers
// pass for pointers: index, slice, div0, typeassert, negshift, makeslice,
// nilmap) are discharged.  What is not discharged is a lead to look at, not a
// finding: callees without contract havoc everything and preconditions are
// unknown.
func cmdSweep(args []string) {
	fs := flag.NewFlagSet("sweep", flag.ExitOnError)
	repo := fs.String("repo", "/repo", "repository")
	verif := fs.String("verif", "/verif", "verif directory")
	pkgs := fs.String("pkgs", "./rtpconn", "package patterns (comma separated)")
	timeout := fs.Int("timeout", 15, "per-obligation timeout (s)")
	classes := fs.String("classes", "index,slice,div0,typeassert,negshift,makeslice,nilmap", "safety classes to discharge")
	trustedToo := fs.Bool("trusted", true, "also sweep functions whose contract is trusted")
	fs.Parse(args)
	e, err := load(*repo, *verif, strings.Split(*pkgs, ","))
	if err != nil {
		fmt.Fprintln(os.Stderr, "ERROR", err)
		os.Exit(2)
	}
	want := map[string]bool{}
	for _, p := range strings.Split(*pkgs, ",") {
		want[modPath+"/"+strings.TrimPrefix(p, "./")] = true
	}
	pats := fs.Args()
	var keys []string
	for k, fn := range e.fnByKey {
		if fn.Pkg == nil || !want[fn.Pkg.Pkg.Path()] || len(fn.Blocks) == 0 || fn.Synthetic != "" {
			continue
		}
		if c := e.contracts[k]; c != nil && (!c.Trusted || !*trustedToo) {
			continue
		}
		if len(pats) > 0 && !matchAny(k, pats) {
			continue
		}
		keys = append(keys, k)
	}
	sort.Strings(keys)
	var frs []*FnResult
	skipped := 0
	for _, k := range keys {
		fn := e.fnByKey[k]
		var nn []string
		for _, p := range fn.Params {
			if _, ok := p.Type().Underlying().(*types.Pointer); ok && p.Name() != "" && p.Name() != "_" {
				nn = append(nn, p.Name()+" != nil")
			}
		}
		name := strings.TrimPrefix(k, strings.TrimPrefix(fn.Pkg.Pkg.Path(), modPath+"/")+".")
		if fn.Signature.Recv() != nil {
			// (*pkg.T).M -> (*T).M
			name = strings.Replace(k, strings.TrimPrefix(fn.Pkg.Pkg.Path(), modPath+"/")+".", "", 1)
		}
		text := "//@ func " + name + "\n//@   safe\n"
		if len(nn) > 0 {
			text += "//@   requires nonnil: " + strings.Join(nn, " && ") + "\n"
		}
		text += "//@   modifies *\n"
		sf, err := parseSpecText(fn.Pkg.Pkg.Path(), "sweep", text)
		if err != nil || len(sf.Funcs) != 1 {
			skipped++
			continue
		}
		var con *Contract
		for _, c := range sf.Funcs {
			con = c
		}
		con.Key = k
		fr := sweepEncode(e, fn, con)
		if fr == nil || fr.Err != nil {
			skipped++
			if fr != nil {
				fmt.Printf("skip     %-60s %v\n", k, truncate(fr.Err.Error(), 120))
			}
			continue
		}
		frs = append(frs, fr)
	}
	re := regexp.MustCompile(`/safe:(` + strings.ReplaceAll(*classes, ",", "|") + `)#`)
	tmp := tmpDir()
	defer os.RemoveAll(tmp)
	res := dischargeAll(frs, func(n string) bool { return re.MatchString(n) }, runtime.NumCPU(), *timeout, tmp)
	bad := 0
	for _, r := range res {
		if r.Status == "proved" || r.Status == "sat-ok" {
			continue
		}
		bad++
		fmt.Printf("%-8s %-70s %6.2fs %s\n", r.Status, r.Name, r.Seconds, r.Pos)
	}
	fmt.Printf("sweep: %d functions encoded, %d skipped, %d obligations, %d not discharged\n", len(frs), skipped, len(res), bad)
}

func sweepEncode(e *Eng, fn *ssa.Function, con *Contract) (fr *FnResult) {
	defer func() {
		if r := recover(); r != nil {
			fr = &FnResult{Key: con.Key, Err: fmt.Errorf("%v", r)}
		}
	}()
	return e.encodeFunction(fn, con)
}
