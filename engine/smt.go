package main

// SMT-LIB term construction helpers.  Terms are plain strings; every
// non-trivial intermediate value is bound to a name with define-fun so the
// emitted text stays linear in the size of the function.

import (
	"fmt"
	"math/big"
	"strings"
)

const (
	SBool = "Bool"
	SInt  = "Int" // object references, dynamic type tags, closure ids
	SStr  = "Str" // Go strings (uninterpreted sort, see DESIGN 2.3)
	SBV8  = "(_ BitVec 8)"
	SBV16 = "(_ BitVec 16)"
	SBV32 = "(_ BitVec 32)"
	SBV64 = "(_ BitVec 64)"
)

func bvSort(w int) string { return fmt.Sprintf("(_ BitVec %d)", w) }

func sortWidth(s string) int {
	switch s {
	case SBV8:
		return 8
	case SBV16:
		return 16
	case SBV32:
		return 32
	case SBV64:
		return 64
	}
	var w int
	if _, err := fmt.Sscanf(s, "(_ BitVec %d)", &w); err == nil {
		return w
	}
	return 0
}

// heapSort is the sort of the heap holding leaves of sort s:
// ref -> idx -> sub -> value.
func heapSort(s string) string {
	return fmt.Sprintf("(Array Int (Array (_ BitVec 64) (Array (_ BitVec 64) %s)))", s)
}
func midSort(s string) string {
	return fmt.Sprintf("(Array (_ BitVec 64) (Array (_ BitVec 64) %s))", s)
}
func innerSort(s string) string {
	return fmt.Sprintf("(Array (_ BitVec 64) %s)", s)
}

func className(s string) string {
	switch s {
	case SBool:
		return "Bool"
	case SInt:
		return "Int"
	case SStr:
		return "Str"
	}
	return fmt.Sprintf("BV%d", sortWidth(s))
}

var allClasses = []string{SBool, SBV8, SBV16, SBV32, SBV64, SInt, SStr}

func bvLit(v *big.Int, w int) string {
	m := new(big.Int).Lsh(big.NewInt(1), uint(w))
	x := new(big.Int).Mod(v, m)
	if x.Sign() < 0 {
		x.Add(x, m)
	}
	return fmt.Sprintf("(_ bv%s %d)", x.String(), w)
}

func bvLitI(v int64, w int) string { return bvLit(big.NewInt(v), w) }

func bv64(v int64) string { return bvLitI(v, 64) }

func and(ts ...string) string {
	var xs []string
	for _, t := range ts {
		if t == "true" || t == "" {
			continue
		}
		if t == "false" {
			return "false"
		}
		xs = append(xs, t)
	}
	switch len(xs) {
	case 0:
		return "true"
	case 1:
		return xs[0]
	}
	return "(and " + strings.Join(xs, " ") + ")"
}

func or(ts ...string) string {
	var xs []string
	for _, t := range ts {
		if t == "false" || t == "" {
			continue
		}
		if t == "true" {
			return "true"
		}
		xs = append(xs, t)
	}
	switch len(xs) {
	case 0:
		return "false"
	case 1:
		return xs[0]
	}
	return "(or " + strings.Join(xs, " ") + ")"
}

func not(t string) string {
	switch t {
	case "true":
		return "false"
	case "false":
		return "true"
	}
	if strings.HasPrefix(t, "(not ") && balanced(t[5:len(t)-1]) {
		return t[5 : len(t)-1]
	}
	return "(not " + t + ")"
}

func balanced(s string) bool {
	d := 0
	for i := 0; i < len(s); i++ {
		switch s[i] {
		case '(':
			d++
		case ')':
			d--
			if d < 0 {
				return false
			}
		case ' ':
			if d == 0 {
				return false
			}
		}
	}
	return d == 0
}

func implies(a, b string) string {
	if a == "true" {
		return b
	}
	if a == "false" || b == "true" {
		return "true"
	}
	return "(=> " + a + " " + b + ")"
}

func ite(c, a, b string) string {
	if c == "true" {
		return a
	}
	if c == "false" {
		return b
	}
	if a == b {
		return a
	}
	return "(ite " + c + " " + a + " " + b + ")"
}

func eq(a, b string) string {
	if a == b {
		return "true"
	}
	return "(= " + a + " " + b + ")"
}

func app(f string, args ...string) string {
	if len(args) == 0 {
		return f
	}
	return "(" + f + " " + strings.Join(args, " ") + ")"
}

func sel(a, i string) string { return "(select " + a + " " + i + ")" }
func sto(a, i, v string) string {
	return "(store " + a + " " + i + " " + v + ")"
}

// extend converts a bit-vector term from width fw to width tw.
func extend(t string, fw, tw int, signed bool) string {
	if fw == tw {
		return t
	}
	if fw > tw {
		return fmt.Sprintf("((_ extract %d 0) %s)", tw-1, t)
	}
	if signed {
		return fmt.Sprintf("((_ sign_extend %d) %s)", tw-fw, t)
	}
	return fmt.Sprintf("((_ zero_extend %d) %s)", tw-fw, t)
}

func zeroOf(sort string) string {
	switch sort {
	case SBool:
		return "false"
	case SInt:
		return "0"
	case SStr:
		return "str_empty"
	}
	return bvLitI(0, sortWidth(sort))
}

// inRange is lo <= x < hi for 64-bit offsets.  Offsets and lengths are below
// 2^48 (maxLen), so lo+len never wraps and the two comparisons are exact.
func inRange(x, lo, hi string) string {
	if lo == "(_ bv0 64)" {
		return "(bvult " + x + " " + hi + ")"
	}
	return "(and (bvule " + lo + " " + x + ") (bvult " + x + " " + hi + "))"
}
