package main

// Regions (modifies / frames), loop invariants, contract application at
// call sites, defers.

import (
	"fmt"
	"go/token"
	"go/types"
	"sort"
	"strings"

	"golang.org/x/tools/go/ssa"
)

// Region is a set of heap cells named by a modifies designator.
type Region struct {
	Ref     string
	IdxLo   string
	IdxHi   string // "" = the single index IdxLo
	SubLo   string
	SubHi   string // "" = every sub
	NCells  int    // >0: SubHi = SubLo+NCells (small, enumerable)
	Classes []string
	Map     *types.Map // map contents at Ref
	Text    string
	Leaves  []string // sort of the leaf at each cell offset (small regions of known type)
	Via     []viaTag
	Elem    bool   // the region is one whole element of a slice (s[i])
	Ghost   string // ghost integer <name> of the object Ref
	Object  bool   // every cell of the object Ref (object(x))
}

// containsWrite is the condition under which a recorded write lies inside
// the region.
func (r Region) containsWrite(w writeRec) string {
	if r.Ghost != "" {
		if w.Kind == "ghost:"+r.Ghost {
			return eq(w.Ref, r.Ref)
		}
		return "false"
	}
	if strings.HasPrefix(w.Kind, "ghost:") {
		return "false"
	}
	if r.Map != nil {
		return "false"
	}
	if r.Object {
		if w.Kind == "all" || w.Kind == "map" {
			return "false"
		}
		return eq(w.Ref, r.Ref)
	}
	if w.Class != "" && !hasClass(r.Classes, w.Class) {
		return "false"
	}
	idxIn := func(i string) string {
		if r.IdxHi == "" {
			return eq(i, r.IdxLo)
		}
		return inRange(i, r.IdxLo, r.IdxHi)
	}
	switch w.Kind {
	case "cell":
		return r.contains(w.Ref, w.Idx, w.Sub)
	case "subrange":
		c := and(eq(w.Ref, r.Ref), idxIn(w.Idx))
		if r.SubHi != "" {
			c = and(c, "(bvule "+r.SubLo+" "+w.Sub+")", "(bvule "+w.SubHi+" "+r.SubHi+")")
		}
		return c
	case "idxrange":
		if r.SubHi != "" && !r.Elem {
			return "false"
		}
		if r.IdxHi == "" {
			return and(eq(w.Ref, r.Ref), eq(w.Idx, r.IdxLo), "(bvule "+w.IdxHi+" (bvadd "+r.IdxLo+" (_ bv1 64)))")
		}
		return and(eq(w.Ref, r.Ref), "(bvule "+r.IdxLo+" "+w.Idx+")", "(bvule "+w.IdxHi+" "+r.IdxHi+")")
	}
	return "false"
}

// writeObligations emits, for every heap update recorded while encoding the
// function, the obligation that it stays inside the modifies clause or
// touches an object allocated by the function itself.  Together they imply
// that every cell allocated at entry and outside the clause is unchanged.
func (f *FnEnc) writeObligations(rs []Region, key string) {
	seen := map[string]bool{}
	n := 0
	for k, w := range f.writes {
		var allowed string
		switch w.Kind {
		case "all":
			allowed = "false"
		default:
			alts := []string{"(>= " + w.Ref + " " + f.st0.alloc + ")"}
			switch w.Kind {
			case "subrange":
				alts = append(alts, eq(w.Sub, w.SubHi)) // empty range
			case "idxrange":
				alts = append(alts, eq(w.Idx, w.IdxHi))
			}
			if w.Kind == "map" {
				for _, r := range rs {
					if r.Map != nil {
						alts = append(alts, eq(w.Ref, r.Ref))
					}
				}
			} else if strings.HasPrefix(w.Kind, "ghost:") {
				for _, r := range rs {
					if c := r.containsWrite(w); c != "false" {
						alts = append(alts, c)
					}
				}
			} else if w.Kind != "object" {
				for _, r := range rs {
					if c := r.containsWrite(w); c != "false" {
						alts = append(alts, c)
					}
				}
			} else {
				for _, r := range rs {
					if r.Object {
						alts = append(alts, eq(w.Ref, r.Ref))
					}
				}
			}
			allowed = or(alts...)
		}
		sig := w.Guard + "|" + allowed
		if seen[sig] {
			continue
		}
		seen[sig] = true
		n++
		what := w.Kind
		if w.Class != "" {
			what += " " + className(w.Class)
		}
		f.c.oblige(Item{Guard: w.Guard, Formula: allowed, Name: fmt.Sprintf("%s/frame:write#%d", key, n), Class: "frame", Pos: f.pos(f.writePos[k]),
			Text: "heap write (" + what + ") stays inside the modifies clause or touches an object allocated here"})
	}
}

func (r Region) contains(ref, idx, sub string) string {
	if r.Object {
		return eq(ref, r.Ref)
	}
	cs := []string{eq(ref, r.Ref)}
	if r.IdxHi == "" {
		cs = append(cs, eq(idx, r.IdxLo))
	} else {
		cs = append(cs, inRange(idx, r.IdxLo, r.IdxHi))
	}
	if r.SubHi != "" {
		cs = append(cs, inRange(sub, r.SubLo, r.SubHi))
	}
	return and(cs...)
}

func hasClass(cs []string, c string) bool {
	for _, x := range cs {
		if x == c {
			return true
		}
	}
	return false
}

// regions evaluates modifies designators in se (normally in the pre-state).
func (f *FnEnc) regions(se *SpecEnv, mods []SExpr) []Region {
	var out []Region
	for _, m := range mods {
		out = append(out, f.region(se, m))
	}
	return out
}

// region evaluates a modifies designator.  A designator whose evaluation
// dereferences a nil pointer denotes no memory at all (a write through a nil
// pointer panics, it never completes): its reference becomes -1, which is
// no object.
func (f *FnEnc) region(se *SpecEnv, m SExpr) Region {
	var derefs []string
	saved := se.derefs
	se.derefs = &derefs
	r := f.region1(se, m)
	se.derefs = saved
	if len(derefs) > 0 && r.Ref != "" {
		r.Ref = f.c.define("rgref", SInt, ite(and(derefs...), r.Ref, "(- 1)"))
	}
	return r
}

func (f *FnEnc) region1(se *SpecEnv, m SExpr) Region {
	text := fmt.Sprint(m)
	if ix, ok := m.(SIndex); ok {
		if id, ok := ix.I.(SIdent); ok && id.Name == "*" {
			x := se.eval(ix.X, nil)
			switch u := x.T.Underlying().(type) {
			case *types.Slice:
				if f.l.oneCell(u.Elem()) {
					return Region{Ref: x.L[0], IdxLo: x.L[1], SubLo: x.L[2], SubHi: "(bvadd " + x.L[2] + " " + x.L[3] + ")", Classes: f.l.classesOf(u.Elem()), Text: text}
				}
				return Region{Ref: x.L[0], IdxLo: x.L[1], IdxHi: "(bvadd " + x.L[1] + " " + x.L[3] + ")", Classes: f.l.classesOf(u.Elem()), Text: text}
			case *types.Map:
				return Region{Ref: x.L[0], Map: u, Text: text}
			}
			sfail("[*] on %s", x.T)
		}
	}
	if c, ok := m.(SCall); ok && c.Fun == "full" {
		// every element of the backing array up to the capacity
		x := se.eval(c.Args[0], nil)
		u, ok := x.T.Underlying().(*types.Slice)
		if !ok {
			sfail("full() on %s", x.T)
		}
		if f.l.oneCell(u.Elem()) {
			return Region{Ref: x.L[0], IdxLo: x.L[1], SubLo: x.L[2], SubHi: "(bvadd " + x.L[2] + " " + x.L[4] + ")", Classes: f.l.classesOf(u.Elem()), Text: text}
		}
		return Region{Ref: x.L[0], IdxLo: x.L[1], IdxHi: "(bvadd " + x.L[1] + " " + x.L[4] + ")", Classes: f.l.classesOf(u.Elem()), Text: text}
	}
	if c, ok := m.(SCall); ok && c.Fun == "object" {
		x := se.eval(c.Args[0], nil)
		ref := x.L[0]
		if _, isIface := x.T.Underlying().(*types.Interface); isIface {
			ref = x.L[1]
		}
		return Region{Ref: ref, Object: true, Classes: allClasses, Text: text}
	}
	if c, ok := m.(SCall); ok && c.Fun == "ghostint" {
		lit := c.Args[0].(SLit)
		x := se.eval(c.Args[1], nil)
		ref := x.L[0]
		if _, isIface := x.T.Underlying().(*types.Interface); isIface {
			ref = x.L[1]
		}
		return Region{Ref: ref, Ghost: lit.Val, Text: text}
	}
	if c, ok := m.(SCall); ok && c.Fun == "held" {
		a, t := se.addrOf(c.Args[0])
		return Region{Ref: a.Ref, IdxLo: a.Idx, SubLo: a.plusSub(f.heldOffset(t)).Sub, NCells: 1, SubHi: a.plusSub(f.heldOffset(t) + 1).Sub, Classes: []string{SBool}, Text: text}
	}
	a, t := se.addrOf(m)
	n := f.l.cells(t)
	r := Region{Ref: a.Ref, IdxLo: a.Idx, SubLo: a.Sub, SubHi: a.plusSub(n).Sub, Classes: f.l.classesOf(t), Text: text, Via: a.Via}
	if ix, ok := m.(SIndex); ok && !f.l.oneCell(t) {
		_ = ix
		r.Elem = true
	}
	if _, named := t.(*types.Named); named {
		if _, isStruct := t.Underlying().(*types.Struct); isStruct {
			r.Via = append(append([]viaTag(nil), r.Via...), viaTag{t, 0})
		}
	}
	if n <= 160 {
		r.NCells = n
		func() {
			defer func() { recover() }()
			if ls := f.l.leafSorts(t); len(ls) == n {
				r.Leaves = ls
			}
		}()
	}
	return r
}

// havocRegions makes the cells of the regions arbitrary in st.
func (f *FnEnc) havocRegions(st *State, rs []Region) {
	for _, r := range rs {
		if r.Ghost != "" {
			k := "map:ghost:" + r.Ghost
			h := f.lazyHeap(st, k)
			f.noteWrite(writeRec{Kind: "ghost:" + r.Ghost, Ref: r.Ref})
			st.heaps[k] = f.c.define("G", "(Array Int (_ BitVec 64))", sto(h, r.Ref, f.c.fresh("hvg", SBV64)))
			continue
		}
		if r.Map != nil {
			f.havocMapAt(st, r.Map, r.Ref)
			continue
		}
		if r.Object {
			f.havocObject(st, r.Ref, allClasses)
			continue
		}
		if r.IdxHi == "" && r.SubHi != "" && r.NCells > 0 {
			// a few cells: cell-level stores of fresh values (kept in the
			// write log); every class the region's type contains is
			// havocked at every cell offset, which over-approximates
			for k := 0; k < r.NCells; k++ {
				a := Addr{Ref: r.Ref, Idx: r.IdxLo, Sub: bvadd(r.SubLo, bv64(int64(k)))}
				for _, v := range r.Via {
					a.Via = append(a.Via, viaTag{v.T, v.Off + k})
				}
				if r.Leaves != nil {
					f.logStore(st, r.Leaves[k], a, f.c.fresh("hv", r.Leaves[k]))
					continue
				}
				for _, so := range r.Classes {
					f.logStore(st, so, a, f.c.fresh("hv", so))
				}
			}
			continue
		}
		for _, so := range r.Classes {
			switch {
			case r.IdxHi != "":
				f.noteWrite(writeRec{Class: so, Kind: "idxrange", Ref: r.Ref, Idx: r.IdxLo, IdxHi: r.IdxHi})
			case r.SubHi == "":
				f.noteWrite(writeRec{Class: so, Kind: "idxrange", Ref: r.Ref, Idx: r.IdxLo, IdxHi: bvadd(r.IdxLo, bv64(1))})
			default:
				f.noteWrite(writeRec{Class: so, Kind: "subrange", Ref: r.Ref, Idx: r.IdxLo, Sub: r.SubLo, SubHi: r.SubHi})
			}
			h := f.heap(st, so)
			mid := f.c.define("mid", midSort(so), sel(h, r.Ref))
			var nmid string
			if r.IdxHi != "" {
				fm := f.c.fresh("hvmid", midSort(so))
				nmid = f.c.lambda(innerSort(so), "(ite "+inRange("k!l", r.IdxLo, r.IdxHi)+" (select "+fm+" k!l) (select "+mid+" k!l))")
			} else {
				inner := f.c.define("inner", innerSort(so), sel(mid, r.IdxLo))
				var ninner string
				switch {
				case r.SubHi == "":
					ninner = f.c.fresh("hvinner", innerSort(so))
				default:
					fi := f.c.fresh("hvinner", innerSort(so))
					ninner = f.c.lambda(so, "(ite "+inRange("k!l", r.SubLo, r.SubHi)+" (select "+fi+" k!l) (select "+inner+" k!l))")
				}
				nmid = sto(mid, r.IdxLo, ninner)
			}
			setHeap(st, so, f.c.define("H"+className(so), heapSort(so), sto(h, r.Ref, nmid)))
		}
	}
}

func (f *FnEnc) havocMapAt(st *State, mt *types.Map, ref string) {
	f.noteWrite(writeRec{Kind: "map", Ref: ref})
	ks := f.mapKeySort(mt)
	hk := f.mapHasKey(mt)
	hh := f.lazyHeap(st, hk)
	setHeap(st, hk, f.c.define("Mhas", f.heapSortOf(hk), sto(hh, ref, f.c.fresh("hvhas", fmt.Sprintf("(Array %s Bool)", ks)))))
	for p, so := range f.l.leafSorts(mt.Elem()) {
		vk := f.mapValKey(mt, p, so)
		vh := f.lazyHeap(st, vk)
		setHeap(st, vk, f.c.define("Mval", f.heapSortOf(vk), sto(vh, ref, f.c.fresh("hvval", fmt.Sprintf("(Array %s %s)", ks, so)))))
	}
	ln := f.lazyHeap(st, "map:len")
	setHeap(st, "map:len", f.c.define("Mlen", f.heapSortOf("map:len"), sto(ln, ref, f.c.fresh("hvlen", SBV64))))
}

// havocFresh makes the contents of every object allocated by this function
// (ref >= alloc0) arbitrary and keeps all other objects.
func (f *FnEnc) havocFresh(st *State) { f.havocFreshSince(st, f.st0.alloc) }

// loopWriteObligations: every write in the body of a loop with an explicit
// loopmodifies clause stays inside that clause or touches an object allocated
// after the loop was entered (this is what the havoc at the loop head assumes).
func (f *FnEnc) loopWriteObligations(key string) {
	for _, lf := range f.loopFrames {
		n := 0
		seen := map[string]bool{}
		for k, w := range f.writes {
			b, _ := w.Block.(*ssa.BasicBlock)
			fr, _ := w.Frame.(*Frame)
			if b == nil || !(fr == lf.fr && lf.li.body[b]) && !frameInside(fr, lf.fr, lf.li) {
				continue
			}
			var allowed string
			if w.Kind == "all" {
				allowed = "false"
			} else {
				alts := []string{"(>= " + w.Ref + " " + lf.alloc + ")"}
				switch w.Kind {
				case "subrange":
					alts = append(alts, eq(w.Sub, w.SubHi))
				case "idxrange":
					alts = append(alts, eq(w.Idx, w.IdxHi))
				}
				for _, r := range lf.rs {
					switch {
					case w.Kind == "map":
						if r.Map != nil {
							alts = append(alts, eq(w.Ref, r.Ref))
						}
					case w.Kind == "object":
						if r.Object {
							alts = append(alts, eq(w.Ref, r.Ref))
						}
					default:
						if c := r.containsWrite(w); c != "false" {
							alts = append(alts, c)
						}
					}
				}
				allowed = or(alts...)
			}
			sig := w.Guard + "|" + allowed
			if seen[sig] {
				continue
			}
			seen[sig] = true
			n++
			f.c.oblige(Item{Guard: w.Guard, Formula: allowed, Name: fmt.Sprintf("%s/loopframe:loop%d:write#%d", key, lf.li.ord, n), Class: "frame", Pos: f.pos(f.writePos[k]),
				Text: "heap write in the loop body stays inside the loopmodifies clause or touches an object allocated in the loop"})
		}
	}
}

// frameInside: fr is an inlined activation whose call site lies in the loop.
func frameInside(fr, loopFr *Frame, li *loopInfo) bool {
	for x := fr; x != nil && x != loopFr; x = x.parent {
		if x.parent == loopFr && x.callBlock != nil && li.body[x.callBlock] {
			return true
		}
	}
	return false
}

func (f *FnEnc) havocFreshSince(st *State, since string) {
	for _, so := range allClasses {
		h := f.heap(st, so)
		fr := f.c.fresh("Hlf"+className(so), heapSort(so))
		nh := f.c.lambdaRef(midSort(so), "(ite (< r!l "+since+") (select "+h+" r!l) (select "+fr+" r!l))")
		setHeap(st, so, nh)
	}
	for _, k := range sortedHeapKeys(st.heaps) {
		if !strings.HasPrefix(k, "map:") || strings.HasPrefix(k, "map:rangevis:") {
			continue
		}
		h := st.heaps[k]
		hs := f.heapSortOf(k)
		// hs is "(Array Int X)": the element sort X
		elem := strings.TrimSuffix(strings.TrimPrefix(hs, "(Array Int "), ")")
		f.c.n++
		frn := fmt.Sprintf("Mlf!%d", f.c.n)
		f.c.raw(fmt.Sprintf("(declare-const %s %s)", frn, hs))
		st.heaps[k] = f.c.lambdaRef(elem, "(ite (< r!l "+since+") (select "+h+" r!l) (select "+frn+" r!l))")
	}
	f.epoch++
	st.epoch = f.epoch
}

// havocAll makes every heap arbitrary.
func (f *FnEnc) havocAll(st *State) { f.havocAllOpt(st, false) }

// havocAllOpt: with keepGhost the ghost integers survive (a contract that
// says `modifies *` speaks about program memory; specification-only state
// changes only where a contract names it).
func (f *FnEnc) havocAllOpt(st *State, keepGhost bool) {
	f.noteWrite(writeRec{Kind: "all"})
	for _, so := range allClasses {
		setHeap(st, so, f.c.fresh("Hhv"+className(so), heapSort(so)))
	}
	for _, k := range sortedHeapKeys(st.heaps) {
		if strings.HasPrefix(k, "map:") {
			if keepGhost && strings.HasPrefix(k, "map:ghost:") {
				continue
			}
			if strings.HasPrefix(k, "map:rangevis:") {
				continue // specification-only loop state, not memory
			}
			delete(st.heaps, k)
		}
	}
	f.epoch++
	st.epoch = f.epoch
	if !keepGhost {
		st.gepoch = f.epoch
	}
	// the package-level invariants hold in every state (trusted as such where
	// they are first assumed), so also in the unknown one
	if f.fn != nil && f.fn.Pkg != nil && !f.inGlobalInv {
		f.inGlobalInv = true
		for _, g := range f.eng.globalInvs[f.fn.Pkg.Pkg.Path()] {
			se := &SpecEnv{f: f, pkg: pkgOf(f.fn), vars: map[string]Val{}, oldVars: map[string]Val{}, cur: st, old: st, guard: "true"}
			f.c.assume("true", f.evalClause(se, g))
		}
		f.inGlobalInv = false
	}
}

// globalLockCells returns the lock-ghost cells of the mutexes declared with
// `guarded var` (global mutexes), with their names.
func (f *FnEnc) globalLockCells(st *State) (cells []Addr, names []string) {
	var keys []string
	for k := range f.eng.guarded {
		if strings.Contains(k, ".var ") {
			keys = append(keys, k)
		}
	}
	sort.Strings(keys)
	for _, k := range keys {
		i := strings.Index(k, ".var ")
		tp := f.eng.tpkgs[k[:i]]
		if tp == nil {
			continue
		}
		text := k[i+5:] + "." + f.eng.guarded[k].mu
		ex, err := parseExpr(text)
		if err != nil {
			continue
		}
		func() {
			defer func() { recover() }()
			se := &SpecEnv{f: f, pkg: tp, vars: map[string]Val{}, oldVars: map[string]Val{}, cur: st, guard: "true"}
			a, t := se.addrOf(ex)
			cells = append(cells, a.plusSub(f.heldOffset(t)))
			names = append(names, tp.Name()+"."+text)
		}()
	}
	return
}

// havocCall is the effect of a call that may modify all of memory: every
// heap becomes arbitrary, except that the lock ghosts of global mutexes stay
// as they were (a callee whose contract does not name held(mu) is
// lock-balanced: checked for verified callees, assumed for trusted ones).
// heldCellPred returns, as an SMT predicate over (r!q, s!q), the condition
// "cell (r, *, s) is the lock ghost of a mutex": by allocation type and leaf
// offset, for every struct (or array element) type of the repository that
// contains a mutex.  "" if there is none.
func (f *FnEnc) heldCellPred() string {
	if f.objTypes == nil {
		return ""
	}
	if f.heldPredDone {
		return f.heldPred
	}
	f.heldPredDone = true
	var alts []string
	var walk func(t types.Type, base int, tag string, depth int)
	walk = func(t types.Type, base int, tag string, depth int) {
		if depth > 6 {
			return
		}
		st, ok := t.Underlying().(*types.Struct)
		if !ok {
			return
		}
		_ = st
		func() {
			defer func() { recover() }()
			for _, fi := range f.l.structFields(t) {
				if fi.Ghost {
					if fi.Name == "held" || fi.Name == "rheld" {
						alts = append(alts, and(eq("(objtype r!q)", tag), eq("s!q", bv64(int64(base+fi.Off)))))
					}
					continue
				}
				if _, isStruct := fi.T.Underlying().(*types.Struct); isStruct {
					walk(fi.T, base+fi.Off, tag, depth+1)
				}
			}
		}()
	}
	for i, t := range f.objTypes.structs {
		walk(t, 0, fmt.Sprint(100000+i), 0)
	}
	for i, t := range f.objTypes.elems {
		if t != nil {
			walk(t, 0, fmt.Sprint(1000+i), 0)
		}
	}
	f.heldPred = or(alts...)
	if f.heldPred == "false" {
		f.heldPred = ""
	}
	return f.heldPred
}

func (f *FnEnc) havocCall(st *State, keepGhost bool) {
	// a callee whose contract is `modifies *` (or that has no contract) is
	// assumed lock-balanced: the lock ghost of EVERY mutex inside an object
	// of a repository type is as before the call (an assumption for trusted
	// and external callees, listed in the evidence; global mutexes are
	// additionally checked for verified callees, see below)
	oldBool := ""
	if pred := f.heldCellPred(); pred != "" {
		oldBool = f.heap(st, SBool)
	}
	cells, _ := f.globalLockCells(st)
	olds := make([]string, len(cells))
	for i, a := range cells {
		olds[i] = f.c.define("heldpre", SBool, f.loadLeaf(st, SBool, a))
	}
	f.havocAllOpt(st, keepGhost)
	if oldBool != "" {
		// (stated on the new base heap, before anything is stored on top of it)
		nb := st.heaps[SBool]
		pred := f.heldCellPred()
		f.c.assume(f.curGuardOrTrue(), "(forall ((r!q Int) (i!q (_ BitVec 64)) (s!q (_ BitVec 64))) (! (=> "+pred+" (= (select (select (select "+nb+" r!q) i!q) s!q) (select (select (select "+oldBool+" r!q) i!q) s!q))) :pattern ((select (select (select "+nb+" r!q) i!q) s!q))))")
		f.c.trusted["callees with a `modifies *` contract or without contract leave every lock ghost as it was (lock-balanced): assumed"] = true
	}
	for i, a := range cells {
		f.storeLeaf(st, SBool, a, olds[i])
	}
	if len(cells) > 0 {
		f.c.trusted["callees whose contract does not name held(mu) leave the lock ghosts of global mutexes unchanged (proved for verified callees, assumed for trusted and external ones)"] = true
	}
}

func (f *FnEnc) curGuardOrTrue() string {
	if f.curGuard == "" {
		return "true"
	}
	return f.curGuard
}

func (f *FnEnc) bumpAlloc(st *State, R string) {
	na := f.c.fresh("alloc", SInt)
	f.c.assume(R, "(<= "+st.alloc+" "+na+")")
	st.alloc = na
}

// mapFrameObligations: maps outside the modifies clause (and allocated at
// entry) are unchanged between old and cur.  (Cells of the class heaps are
// covered write by write, see writeObligations.)
func (f *FnEnc) mapFrameObligations(guard string, old, cur *State, rs []Region, name string, pos token.Pos) {
	// map heaps
	keys := map[string]bool{}
	for k := range old.heaps {
		if strings.HasPrefix(k, "map:") && !strings.HasPrefix(k, "map:rangevis:") {
			keys[k] = true
		}
	}
	for k := range cur.heaps {
		if strings.HasPrefix(k, "map:") && !strings.HasPrefix(k, "map:rangevis:") {
			keys[k] = true
		}
	}
	for _, k := range sortedKeys(keys) {
		h0, h1 := f.lazyHeap(old, k), f.lazyHeap(cur, k)
		if h0 == h1 {
			continue
		}
		r := f.c.fresh("fr_ref", SInt)
		var in []string
		for _, rg := range rs {
			if rg.Map != nil {
				in = append(in, eq(r, rg.Ref))
			}
		}
		hyp := and("(< 0 "+r+")", "(< "+r+" "+old.alloc+")", not(or(in...)))
		f.c.oblige(Item{Guard: guard, Formula: implies(hyp, eq(sel(h1, r), sel(h0, r))), Name: name + ":" + sanitize(k), Class: "frame", Pos: f.pos(pos), Text: "maps outside modifies unchanged (" + k + ")"})
	}
}

// ------------------------------------------------------------ loops

func (f *FnEnc) loopSpec(fr *Frame, li *loopInfo) *LoopSpec {
	con := f.eng.contractOf(fr.fn)
	if con == nil {
		return &LoopSpec{}
	}
	if ls := con.Loops[li.ord]; ls != nil {
		return ls
	}
	return &LoopSpec{}
}

// localsEnv resolves source-level local names to their current values.
func (f *FnEnc) localsEnv(fr *Frame) func(name string, st *State) (Val, bool) {
	return func(name string, st *State) (Val, bool) {
		k := -1
		if i := strings.Index(name, "$"); i > 0 {
			fmt.Sscanf(name[i+1:], "%d", &k)
			name = name[:i]
		}
		as := fr.byName[name]
		if len(as) == 0 {
			return Val{}, false
		}
		a := as[len(as)-1]
		if k >= 1 && k <= len(as) {
			a = as[k-1]
		}
		t := derefType(a.Type())
		if fr.isLocal[a] {
			cur, ok := st.locals[a]
			if !ok {
				return f.zero(t), true
			}
			return Val{T: t, L: cur}, true
		}
		pv, ok := fr.vals[a]
		if !ok {
			return Val{}, false
		}
		return f.load(st, t, ptrAddr(pv)), true
	}
}

func (f *FnEnc) specEnvFor(fr *Frame, cur *State, guard string) *SpecEnv {
	se := &SpecEnv{f: f, pkg: pkgOf(fr.fn), vars: map[string]Val{}, oldVars: map[string]Val{}, cur: cur, old: f.st0, guard: guard, fr: fr}
	se.locals = f.localsEnv(fr)
	if fr == f.top {
		for k, v := range f.params {
			se.oldVars[k] = v
			// a parameter (or captured variable) that has no cell of its own
			// is never assigned: its name denotes its entry value everywhere
			if fr.byName[k] == nil {
				se.vars[k] = v
			}
		}
	}
	return se
}

func pkgOf(fn *ssa.Function) *types.Package {
	for fn.Parent() != nil {
		fn = fn.Parent()
	}
	if fn.Pkg != nil {
		return fn.Pkg.Pkg
	}
	if fn.Object() != nil {
		return fn.Object().Pkg()
	}
	return nil
}

func (f *FnEnc) checkInvariant(fr *Frame, li *loopInfo, ls *LoopSpec, st *State, cond, phase string) {
	for i, inv := range ls.Invariants {
		se := f.specEnvFor(fr, st, cond)
		se.goal = true
		label := inv.Label
		if label == "" {
			label = fmt.Sprint(i + 1)
		}
		n := f.nextOrd(fmt.Sprintf("inv:%s:%d:%s", fr.fn.Name(), li.ord, label) + phase)
		suffix := ""
		if n > 1 {
			suffix = fmt.Sprintf("#%d", n)
		}
		formula := f.evalClause(se, inv)
		var watch []WatchTerm
		for name, v := range f.params {
			watch = append(watch, WatchTerm{Text: name, Terms: v.L})
		}
		for _, a := range sortedAllocSet(li.modLocal) {
			if cur, ok := st.locals[a]; ok {
				watch = append(watch, WatchTerm{Text: "local " + a.Comment, Terms: cur})
			}
		}
		for _, w := range f.eng.watch {
			func() {
				defer func() { recover() }()
				ex, err := parseExpr(w)
				if err != nil {
					return
				}
				se2 := f.specEnvFor(fr, st, cond)
				v := se2.eval(ex, nil)
				watch = append(watch, WatchTerm{Text: w, Terms: v.L})
			}()
		}
		f.c.oblige(Item{Guard: cond, Formula: formula, Name: f.eng.fnKey(fr.fn) + "/invariant-" + phase + ":" + fmt.Sprintf("loop%d:%s%s", li.ord, label, suffix), Class: "invariant",
			Pos: token.Position{Filename: inv.File, Line: inv.Line}, Text: inv.Text, Watch: watch})
	}
}

func (f *FnEnc) evalClause(se *SpecEnv, c Clause) (formula string) {
	defer func() {
		if r := recover(); r != nil {
			switch e := r.(type) {
			case specErr:
				if e.gone && se.goal {
					// a proof goal about a call the code no longer makes (or
					// a local variable it no longer has) cannot be stated: it
					// is reported as a failed obligation
					f.c.pendingGone = e.msg
					formula = "false"
					return
				}
				if e.gone {
					// the same clause in assumption position (a loop invariant
					// at the loop head): nothing is assumed
					formula = "true"
					return
				}
				panic(specErr{msg: fmt.Sprintf("%s:%d: %s (in %q)", c.File, c.Line, e.msg, c.Text)})
			}
			panic(r)
		}
	}()
	return se.evalBool(c.E)
}

func (f *FnEnc) havocLoop(fr *Frame, li *loopInfo, ls *LoopSpec, st *State) *State {
	if li.writes {
		switch {
		case ls.HasMod:
			se := f.specEnvFor(fr, st, "true")
			rs := f.regions(se, ls.Modifies)
			f.loopFrames = append(f.loopFrames, loopFrame{fr: fr, li: li, rs: rs, alloc: st.alloc})
			// (the havoc itself is not a write of the body)
			saved := f.onWrite
			f.onWrite = nil
			f.havocRegions(st, rs)
			f.havocFreshSince(st, st.alloc)
			f.onWrite = saved
		case f.con != nil && f.con.HasMod && !f.con.ModAll && f.entryRegions != nil:
			// every write of the function is checked (write by write) to
			// stay inside the modifies clause or to touch objects allocated
			// by the function; so across the loop only those cells change
			f.havocRegions(st, *f.entryRegions)
			f.havocFresh(st)
		default:
			// everything may change, except that an iteration leaves the
			// global mutexes as it found them (checked at the back edges)
			li.lockCells, li.lockNames = f.globalLockCells(st)
			li.lockVals = nil
			for _, a := range li.lockCells {
				li.lockVals = append(li.lockVals, f.c.define("heldhead", SBool, f.loadLeaf(st, SBool, a)))
			}
			f.havocAll(st)
			for i, a := range li.lockCells {
				f.storeLeaf(st, SBool, a, li.lockVals[i])
			}
		}
		na := f.c.fresh("alloc", SInt)
		f.c.assume("true", "(<= "+st.alloc+" "+na+")")
		st.alloc = na
	}
	for _, a := range sortedAllocSet(li.modLocal) {
		t := derefType(a.Type())
		v := f.freshVal("lh_"+a.Comment, t)
		st.locals[a] = v.L
		// the hidden index of a range over a slice, array or string starts
		// at -1 and is only ever incremented after being compared with the
		// length: it is never below -1 (a fact of the compiler's lowering,
		// the variable is not assignable by the program)
		if a.Comment == "rangeindex" && len(v.L) == 1 {
			if b, ok := t.Underlying().(*types.Basic); ok && b.Kind() == types.Int {
				f.c.assume("true", "(bvsge "+v.L[0]+" (bvneg (_ bv1 64)))")
			}
		}
	}
	// the visited-sets of the range-over-map statements stepped in this loop
	var bodyBlocks []*ssa.BasicBlock
	for b := range li.body {
		bodyBlocks = append(bodyBlocks, b)
	}
	sort.Slice(bodyBlocks, func(i, j int) bool { return bodyBlocks[i].Index < bodyBlocks[j].Index })
	for _, b := range bodyBlocks {
		for _, in := range b.Instrs {
			if nx, ok := in.(*ssa.Next); ok && !nx.IsString {
				if rng, ok := nx.Iter.(*ssa.Range); ok {
					if mt, ok := rng.X.Type().Underlying().(*types.Map); ok {
						vk := f.rangeVisKey(fr, rng, mt)
						setHeap(st, vk, f.c.fresh("lh_rvis", fmt.Sprintf("(Array %s Bool)", f.mapKeySort(mt))))
					}
				}
			}
		}
	}
	return st
}

func (f *FnEnc) assumeInvariant(fr *Frame, li *loopInfo, ls *LoopSpec, st *State, R string) {
	for _, a := range sortedAllocSet(li.modLocal) {
		t := derefType(a.Type())
		f.c.assume(R, f.wf(st, Val{T: t, L: st.locals[a]}))
	}
	for _, inv := range ls.Invariants {
		se := f.specEnvFor(fr, st, R)
		f.c.assume(R, f.evalClause(se, inv))
	}
}

// ------------------------------------------------------------ calls

func (f *FnEnc) deferInstr(fr *Frame, st *State, R string, in *ssa.Defer) {
	var args []Val
	for _, a := range in.Call.Args {
		args = append(args, f.val(fr, a))
	}
	d := deferRec{active: "true", call: in, args: args, frame: fr}
	if !in.Call.IsInvoke() {
		if _, isFn := in.Call.Value.(*ssa.Function); !isFn {
			if _, isB := in.Call.Value.(*ssa.Builtin); !isB {
				v := f.val(fr, in.Call.Value)
				d.fnv = &v
			}
		}
	} else {
		v := f.val(fr, in.Call.Value)
		d.fnv = &v
	}
	st.defers = append(st.defers, d)
}

func (f *FnEnc) runDefers(fr *Frame, st *State, R string) {
	ds := st.defers
	st.defers = nil
	for i := len(ds) - 1; i >= 0; i-- {
		d := ds[i]
		if d.frame != fr {
			// belongs to an enclosing activation
			st.defers = append([]deferRec{d}, st.defers...)
			continue
		}
		if d.active == "true" {
			f.callWith(fr, st, R, nil, &d.call.Call, d.args, d.fnv, d.call.Pos())
			continue
		}
		pre := st.clone()
		g := f.c.define("dg", SBool, and(R, d.active))
		savedG := f.curGuard
		f.curGuard = g
		f.callWith(fr, st, g, nil, &d.call.Call, d.args, d.fnv, d.call.Pos())
		f.curGuard = savedG
		m := f.mergeStates(st, pre, d.active)
		*st = *m
	}
}

func (f *FnEnc) call(fr *Frame, st *State, R string, in ssa.Value, cc *ssa.CallCommon, pos token.Pos) {
	var args []Val
	for _, a := range cc.Args {
		args = append(args, f.val(fr, a))
	}
	var fnv *Val
	if cc.IsInvoke() {
		v := f.val(fr, cc.Value)
		fnv = &v
	} else {
		switch cc.Value.(type) {
		case *ssa.Function, *ssa.Builtin:
		default:
			v := f.val(fr, cc.Value)
			fnv = &v
		}
	}
	// handing a pointer (or slice) into the elements of a guarded slice to a
	// callee counts as an access to them
	if fr == f.top {
		if _, isBuiltin := cc.Value.(*ssa.Builtin); !isBuiltin {
			for _, a := range args {
				switch a.T.Underlying().(type) {
				case *types.Pointer, *types.Slice:
					if a.Loc == nil && len(a.L) > 0 {
						f.guardedElems(fr, st, R, a.L[0], pos, "call")
					}
				}
			}
		}
	}
	f.topCallKey = ""
	f.callWith(fr, st, R, in, cc, args, fnv, pos)
	if fr == f.top && f.topCallKey != "" {
		if f.callStates == nil {
			f.callStates = map[string]*State{}
		}
		f.callStates[f.topCallKey] = st.clone()
	}
}

func (f *FnEnc) setResult(fr *Frame, in ssa.Value, v Val) {
	if in == nil {
		return
	}
	if fr == f.top && f.lastCall != "" && len(v.L) > 0 {
		if f.callResults == nil {
			f.callResults = map[string]Val{}
		}
		rv := v
		rv.T = in.Type()
		f.callResults[f.lastCall] = rv
	}
	if t, ok := in.Type().(*types.Tuple); ok && t.Len() == 0 {
		return
	}
	v.T = in.Type()
	f.setVal(fr, in, v)
}

func (f *FnEnc) callWith(fr *Frame, st *State, R string, in ssa.Value, cc *ssa.CallCommon, args []Val, fnv *Val, pos token.Pos) {
	f.curCallPos = cc.Pos()
	if b, ok := cc.Value.(*ssa.Builtin); ok && !cc.IsInvoke() {
		if fr == f.top {
			f.lastCall = "" // (builtins have no ordinal: the result must not be recorded under the previous call's)
		}
		v, _ := f.builtin(fr, st, R, in, b, args, cc)
		if in != nil && len(v.L) > 0 {
			f.setResult(fr, in, v)
		}
		return
	}
	var rt types.Type
	if in != nil {
		rt = in.Type()
	} else {
		rt = cc.Signature().Results()
	}
	if cc.IsInvoke() {
		// interface method call
		recv := *fnv
		f.safety("nilinvoke", R, not(eq(recv.L[0], "0")), pos)
		key := ifaceKey(cc)
		con := f.eng.ifaceContract(key)
		ord := f.nextCall(cc.Method.Name())
		names := []string{"self"}
		for i, sig := 0, cc.Signature(); i < sig.Params().Len(); i++ {
			names = append(names, sig.Params().At(i).Name())
		}
		f.callAssertsNamed(fr, st, R, cc.Method.Name(), ord, names, append([]Val{recv}, args...), pos)
		if con != nil {
			all := append([]Val{recv}, args...)
			f.c.trusted["iface contract "+key] = true
			res := f.applyContract(fr, st, R, con, names, all, rt, cc.Method.Name(), ord, pos, key)
			f.setResult(fr, in, res)
			return
		}
		f.unknownCall(fr, st, R, in, rt, "invoke "+key, args, pos)
		return
	}
	var callee *ssa.Function
	var bindings []Val
	switch v := cc.Value.(type) {
	case *ssa.Function:
		callee = v
	case *ssa.MakeClosure:
		if rec := fr.closures[v]; rec != nil {
			callee, bindings = rec.fn, rec.bindings
		}
	default:
		// a local variable holding a closure created in this function
		if rec := f.closureFromValue(fr, st, cc.Value); rec != nil {
			callee, bindings = rec.fn, rec.bindings
		}
	}
	if callee == nil {
		f.unknownCall(fr, st, R, in, rt, "dynamic call", args, pos)
		return
	}
	short := callee.Name()
	ord := f.nextCall(short)
	f.callAsserts(fr, st, R, short, ord, callee, args, pos)
	con := f.eng.contractOf(callee)
	if f.intrinsic(fr, st, R, in, callee, args, pos) {
		return
	}
	isClosure := callee.Parent() != nil
	if (isClosure && (con == nil || con.Inline)) || (con != nil && con.Inline) {
		if fr.depth > 6 {
			unsupp("inlining too deep at %s", callee)
		}
		res := f.inline(fr, st, R, callee, args, bindings, rt)
		f.setResult(fr, in, res)
		return
	}
	if con != nil {
		names := paramNames(callee)
		// a closure's contract may name its captured variables: they denote
		// the variables' values at the call
		if len(bindings) == len(callee.FreeVars) {
			for i, fv := range callee.FreeVars {
				b := bindings[i]
				v := b
				if et := derefType(fv.Type()); et != nil && b.Loc == nil {
					v = f.load(st, et, ptrAddr(b))
				} else if b.Loc != nil {
					a, ok := b.Loc.A.(*ssa.Alloc)
					cur, have := st.locals[a]
					if !ok || !have || b.Loc.Off != 0 || et == nil {
						continue
					}
					v = Val{T: et, L: cur}
				}
				names = append(names, fv.Name())
				args = append(append([]Val(nil), args...), v)
			}
		}
		if con.Trusted {
			f.c.trusted["assumed contract "+f.eng.fnKey(callee)] = true
		}
		res := f.applyContract(fr, st, R, con, names, args, rt, short, ord, pos, f.eng.fnKey(callee))
		f.setResult(fr, in, res)
		return
	}
	f.unknownCall(fr, st, R, in, rt, callee.String(), args, pos)
}

// nextCall numbers the call sites of a callee.  In the function under
// contract the ordinal is the position of the call among the calls of that
// name in SOURCE order (stable under reordering of basic blocks); calls
// inside inlined closures are numbered in encounter order under the name
// "<closure>/<callee>".
func (f *FnEnc) nextCall(name string) int {
	if f.curFrame != nil && f.curFrame != f.top {
		name = f.curFrame.fn.Name() + "/" + name
	} else if ord, ok := f.srcOrd[f.curCallPos]; ok && f.curCallPos.IsValid() {
		f.callOrd[name] = ord
		f.lastCall = fmt.Sprintf("%s#%d", name, ord)
		f.topCallKey = f.lastCall
		if f.eng.traceCalls {
			fmt.Printf("  call %-40s at line %d\n", f.lastCall, f.pos(f.curCallPos).Line)
		}
		return ord
	}
	f.callOrd[name]++
	f.lastCall = fmt.Sprintf("%s#%d", name, f.callOrd[name])
	if f.curFrame == nil || f.curFrame == f.top {
		f.topCallKey = f.lastCall
	}
	if f.eng.traceCalls && f.curFrame == f.top {
		fmt.Printf("  call %-40s at line %d\n", f.lastCall, f.pos(f.curPos).Line)
	}
	return f.callOrd[name]
}

func ifaceKey(cc *ssa.CallCommon) string {
	t := cc.Value.Type()
	return types.TypeString(t, func(p *types.Package) string { return p.Name() }) + "." + cc.Method.Name()
}

func paramNames(fn *ssa.Function) []string {
	var out []string
	for _, p := range fn.Params {
		out = append(out, p.Name())
	}
	return out
}

// closureFromValue finds the closure stored in a local variable (pattern:
// `find := func(...)`; the variable is a NaiveForm Alloc holding the
// MakeClosure value).
func (f *FnEnc) closureFromValue(fr *Frame, st *State, v ssa.Value) *closureRec {
	if u, ok := v.(*ssa.UnOp); ok && u.Op == token.MUL {
		if a, ok := u.X.(*ssa.Alloc); ok {
			var rec *closureRec
			n := 0
			for _, r := range *a.Referrers() {
				if s, ok := r.(*ssa.Store); ok && s.Addr == a {
					n++
					if mc, ok := s.Val.(*ssa.MakeClosure); ok {
						rec = fr.closures[mc]
					}
					if fnv, ok := s.Val.(*ssa.Function); ok {
						rec = &closureRec{fn: fnv}
					}
				}
			}
			if n == 1 {
				return rec
			}
		}
	}
	return nil
}

// unknownCall is the most general effect: every heap arbitrary, fresh result.
func (f *FnEnc) unknownCall(fr *Frame, st *State, R string, in ssa.Value, rt types.Type, what string, args []Val, pos token.Pos) {
	if con := f.eng.contractOf(fr.fn); con != nil && con.HasDynMod && what == "dynamic call" {
		f.c.trusted["assumed effect of callbacks in "+f.eng.fnKey(fr.fn)+" (dyncall modifies clause)"] = true
		se := f.specEnvFor(fr, st, R)
		if fr == f.top {
			for k, v := range f.params {
				if fr.byName[k] == nil {
					se.vars[k] = v
				}
			}
		}
		f.havocRegions(st, f.regions(se, con.DynMod))
		f.bumpAlloc(st, R)
		if in != nil {
			v := f.freshVal("ret", rt)
			f.c.assume(R, f.wf(st, v))
			f.setResult(fr, in, v)
		}
		return
	}
	f.c.notes["call without contract, heaps havocked: "+what] = true
	f.havocCall(st, false)
	f.bumpAlloc(st, R)
	if in != nil {
		v := f.freshVal("ret", rt)
		f.c.assume(R, f.wf(st, v))
		f.setResult(fr, in, v)
	}
}

// inline encodes the body of callee at the call site.
func (f *FnEnc) inline(fr *Frame, st *State, R string, callee *ssa.Function, args []Val, bindings []Val, rt types.Type) Val {
	nf := f.newFrame(callee, fr)
	nf.callBlock = f.curBlock
	nf.freeVars = bindings
	for i, p := range callee.Params {
		nf.vals[p] = args[i]
	}
	savedGuard, savedBlock := f.curGuard, f.curBlock
	rets := f.encodeBody(nf, st.clone(), R)
	f.curGuard, f.curBlock = savedGuard, savedBlock
	if len(rets) == 0 {
		// never returns (always panics)
		f.c.assume(R, "false")
		return f.zero(rt)
	}
	// merge return states
	ms := rets[len(rets)-1].st.clone()
	var res []string
	for _, r := range rets[len(rets)-1].results {
		res = append(res, r.L...)
	}
	for i := len(rets) - 2; i >= 0; i-- {
		ms = f.mergeStates(rets[i].st, ms, rets[i].guard)
		var ri []string
		for _, r := range rets[i].results {
			ri = append(ri, r.L...)
		}
		for k := range res {
			res[k] = ite(rets[i].guard, ri[k], res[k])
		}
	}
	// locals of the inlined frame are dead; keep the caller's
	for a := range ms.locals {
		if nf.isLocal[a] {
			delete(ms.locals, a)
		}
	}
	// paths that panic inside the callee do not continue
	var gs []string
	for _, r := range rets {
		gs = append(gs, r.guard)
	}
	f.c.assume(R, or(gs...))
	*st = *ms
	return Val{T: rt, L: res}
}

// callAsserts emits `assert at call NAME#K` clauses of the enclosing
// function's contract.
func (f *FnEnc) callAsserts(fr *Frame, st *State, R string, short string, ord int, callee *ssa.Function, args []Val, pos token.Pos) {
	f.curCalleeFull = callee.String()
	f.callAssertsNamed(fr, st, R, short, ord, paramNames(callee), args, pos)
	f.curCalleeFull = ""
}

func (f *FnEnc) callAssertsNamed(fr *Frame, st *State, R string, short string, ord int, names []string, args []Val, pos token.Pos) {
	con := f.eng.contractOf(fr.fn)
	if con == nil {
		return
	}
	for cai, ca := range con.CallAssert {
		// (a call site is named by the callee's short name, or - to tell
		// os.Open from (*os.Root).Open - by its full name)
		if (ca.Callee != short && (f.curCalleeFull == "" || ca.Callee != f.curCalleeFull)) || (ca.Ord != 0 && ca.Ord != ord) {
			continue
		}
		if con == f.con {
			if f.assertMatched == nil {
				f.assertMatched = map[int]bool{}
			}
			f.assertMatched[cai] = true
		}
		se := f.specEnvFor(fr, st, R)
		if fr == f.top {
			for k, v := range f.params {
				if _, shadow := se.vars[k]; !shadow && fr.byName[k] == nil {
					se.vars[k] = v
				}
			}
		}
		for i := range args {
			if i < len(names) {
				se.vars["arg_"+names[i]] = args[i]
			}
			se.vars[fmt.Sprintf("arg%d", i)] = args[i]
		}
		label := ca.Clause.Label
		var watch []WatchTerm
		for _, w := range f.eng.watch {
			func() {
				defer func() {
					if r := recover(); r != nil {
						watch = append(watch, WatchTerm{Text: w + " (error: " + fmt.Sprint(r) + ")"})
					}
				}()
				ex, err := parseExpr(w)
				if err != nil {
					panic(err)
				}
				se.goal = false
				v := se.eval(ex, nil)
				watch = append(watch, WatchTerm{Text: w, Terms: v.L})
			}()
		}
		se.goal = true
		f.c.oblige(Item{Guard: R, Formula: f.evalClause(se, ca.Clause), Name: f.eng.fnKey(fr.fn) + fmt.Sprintf("/at-call:%s#%d:%s", short, ord, label), Class: "assert",
			Pos: f.pos(pos), Text: ca.Clause.Text, Watch: watch})
	}
}

// applyContract checks requires, havocs modifies and assumes ensures.
func (f *FnEnc) applyContract(fr *Frame, st *State, R string, con *Contract, names []string, args []Val, rt types.Type, short string, ord int, pos token.Pos, calleeKey string) Val {
	pre := st.clone()
	mk := func(cur *State) *SpecEnv {
		se := &SpecEnv{f: f, pkg: f.eng.typesPkg(con.Pkg, pkgOf(fr.fn)), vars: map[string]Val{}, oldVars: map[string]Val{}, cur: cur, old: pre, guard: R}
		for i, n := range names {
			if i < len(args) && n != "" && n != "_" {
				se.vars[n] = args[i]
				se.oldVars[n] = args[i]
			}
			if i < len(args) {
				se.vars[fmt.Sprintf("arg%d", i)] = args[i]
			}
		}
		return se
	}
	for i, rq := range con.Requires {
		se := mk(st)
		se.old = nil
		se.goal = true
		label := rq.Label
		if label == "" {
			label = fmt.Sprint(i + 1)
		}
		f.c.oblige(Item{Guard: R, Formula: f.evalClause(se, rq), Name: f.eng.fnKey(f.curFrame0().fn) + fmt.Sprintf("/requires-at:%s#%d:%s", short, ord, label), Class: "requires",
			Pos: f.pos(pos), Text: rq.Text + "   [precondition of " + calleeKey + "]"})
	}
	var res Val
	resTuple := flattenResults(rt)
	if con.Pure {
		res = f.pureResult(st, calleeKey, args, rt, con.Reads)
		f.c.assume(R, f.wf(st, res))
	} else {
		switch {
		case !con.HasMod || con.ModAll:
			f.c.notes["contract without modifies clause, heaps havocked: "+calleeKey] = true
			f.havocCall(st, con.HasMod)
			if len(con.Modifies) > 0 {
				f.havocRegions(st, f.regions(mk(pre), con.Modifies))
			}
		default:
			rs := f.regions(mk(pre), con.Modifies)
			f.havocRegions(st, rs)
		}
		f.bumpAlloc(st, R)
		res = f.freshVal("ret_"+short, rt)
		f.c.assume(R, f.wf(st, res))
	}
	if len(con.Ensures) > 0 {
		se := mk(st)
		se.results = splitResults(f, res, resTuple)
		se.resName = resultNames(f.eng, calleeKey)
		for _, en := range con.Ensures {
			if en.Internal {
				continue
			}
			f.c.assume(R, f.evalClause(se, en))
		}
	}
	if con.Fresh && len(res.L) > 0 {
		ref := res.L[0]
		if _, isIface := res.T.Underlying().(*types.Interface); isIface {
			ref = res.L[1] // payload object of the interface value
		}
		f.c.assume(R, and("(<= "+pre.alloc+" "+ref+")", "(< "+ref+" "+st.alloc+")"))
	}
	return res
}

func (f *FnEnc) curFrame0() *Frame {
	fr := f.curFrame
	for fr != nil && fr.parent != nil {
		fr = fr.parent
	}
	if fr == nil {
		return f.top
	}
	return fr
}

func flattenResults(rt types.Type) []types.Type {
	if t, ok := rt.(*types.Tuple); ok {
		var out []types.Type
		for i := 0; i < t.Len(); i++ {
			out = append(out, t.At(i).Type())
		}
		return out
	}
	if rt == nil {
		return nil
	}
	return []types.Type{rt}
}

func splitResults(f *FnEnc, res Val, ts []types.Type) []Val {
	var out []Val
	off := 0
	for _, t := range ts {
		n := f.l.cells(t)
		out = append(out, Val{T: t, L: res.L[off : off+n]})
		off += n
	}
	return out
}

func resultNames(e *Eng, key string) []string {
	fn := e.fnByKey[key]
	if fn == nil {
		return nil
	}
	var out []string
	r := fn.Signature.Results()
	for i := 0; i < r.Len(); i++ {
		out = append(out, r.At(i).Name())
	}
	return out
}

// pureResult is an uninterpreted function of the arguments and of the
// objects they point to.
// mapVersion numbers the distinct map states met while encoding: the same
// number means the same epoch and the same terms for every map heap that has
// been written since (heaps only created lazily do not count).
func (f *FnEnc) mapVersion(st *State) int {
	var b strings.Builder
	fmt.Fprintf(&b, "%d", st.epoch)
	for _, k := range sortedHeapKeys(st.heaps) {
		if !strings.HasPrefix(k, "map:") || strings.HasPrefix(k, "map:ghost:") || strings.HasPrefix(k, "map:rangevis:") {
			continue
		}
		if st.heaps[k] == fmt.Sprintf("%s@%d", sanitize(k), st.epoch) {
			continue
		}
		fmt.Fprintf(&b, "|%s=%s", k, st.heaps[k])
	}
	if f.mapVers == nil {
		f.mapVers = map[string]int{}
	}
	d := b.String()
	if n, ok := f.mapVers[d]; ok {
		return n
	}
	n := len(f.mapVers) + 1
	f.mapVers[d] = n
	return n
}

// assumePurePost: every application of a pure function satisfies the
// function's postconditions whenever its preconditions hold (the contract is
// verified, or trusted, for all inputs).  Used for applications written in
// specifications; applications in the code get the same through applyContract.
func (f *FnEnc) assumePurePost(se *SpecEnv, con *Contract, names []string, args []Val, res Val, rt types.Type, key string) {
	if se.qdepth != 0 || se.guard == "" || se.depth > 2 || len(con.Ensures) == 0 {
		return
	}
	memo := key + "|" + strings.Join(res.L, ",") + "|" + se.guard
	if f.pureDone == nil {
		f.pureDone = map[string]bool{}
	}
	if f.pureDone[memo] {
		return
	}
	f.pureDone[memo] = true
	st := se.state()
	mk := func() *SpecEnv {
		e := &SpecEnv{f: f, pkg: f.eng.typesPkg(con.Pkg, se.pkg), vars: map[string]Val{}, oldVars: map[string]Val{}, cur: st, old: st, guard: se.guard, depth: se.depth + 1}
		for i, n := range names {
			if i < len(args) && n != "" && n != "_" {
				e.vars[n] = args[i]
				e.oldVars[n] = args[i]
			}
		}
		return e
	}
	var pre []string
	for _, rq := range con.Requires {
		pre = append(pre, f.evalClause(mk(), rq))
	}
	e := mk()
	e.results = splitResults(f, res, flattenResults(rt))
	e.resName = resultNames(f.eng, key)
	for _, en := range con.Ensures {
		if en.Internal {
			continue
		}
		f.c.assume(se.guard, implies(and(pre...), f.evalClause(e, en)))
	}
}

func (f *FnEnc) pureResult(st *State, key string, args []Val, rt types.Type, reads string) Val {
	var as, sorts []string
	for _, a := range args {
		ss := f.l.leafSorts(a.T)
		for i := range a.L {
			as = append(as, a.L[i])
			sorts = append(sorts, ss[i])
		}
		if reads == "none" {
			continue
		}
		var et types.Type
		switch u := a.T.Underlying().(type) {
		case *types.Pointer:
			et = u.Elem()
		case *types.Slice:
			et = u.Elem()
		case *types.Interface:
			if reads == "all" {
				et = nil
			}
		}
		if et != nil && reads != "all" {
			for _, so := range f.l.classesOf(et) {
				as = append(as, sel(f.heap(st, so), a.L[0]))
				sorts = append(sorts, midSort(so))
			}
		}
	}
	if reads == "all" {
		for _, so := range allClasses {
			as = append(as, f.heap(st, so))
			sorts = append(sorts, heapSort(so))
		}
		// the maps: a version number that is equal only for states whose
		// map heaps are the same terms
		as = append(as, fmt.Sprint(f.mapVersion(st)))
		sorts = append(sorts, SInt)
	}
	rs := f.l.leafSorts(rt)
	out := Val{T: rt, L: make([]string, len(rs))}
	for k, so := range rs {
		name := fmt.Sprintf("pure!%s!%d", sanitize(key), k)
		f.c.declareFun(name, sorts, so)
		out.L[k] = f.c.define("pure", so, app(name, as...))
	}
	return out
}
