package main

import (
	"fmt"
	"go/token"
	"go/types"
	"sort"
	"strings"

	"golang.org/x/tools/go/ssa"
)

func (f *FnEnc) setVal(fr *Frame, v ssa.Value, x Val) {
	// name every leaf so later terms stay small
	sorts := []string(nil)
	if x.Loc == nil {
		sorts = f.l.leafSorts(x.T)
		if len(sorts) != len(x.L) {
			panic(fmt.Sprintf("setVal %s: %d leaves for type %s (want %d)", v.Name(), len(x.L), x.T, len(sorts)))
		}
		nl := make([]string, len(x.L))
		for i := range x.L {
			nl[i] = f.c.define(v.Name(), sorts[i], x.L[i])
		}
		x.L = nl
	}
	fr.vals[v] = x // (Via is kept)
}

func (f *FnEnc) instr(fr *Frame, st *State, R string, in ssa.Instruction) {
	f.eqState = st // (interface comparisons load boxed values)
	switch in := in.(type) {
	case *ssa.DebugRef:
	case *ssa.Alloc:
		t := derefType(in.Type())
		if fr.isLocal[in] {
			st.locals[in] = f.zero(t).L
			fr.vals[in] = Val{T: in.Type(), Loc: &LocalAddr{A: in, Off: 0, T: t}}
			return
		}
		var elem types.Type
		if at, ok := t.Underlying().(*types.Array); ok {
			elem = at.Elem()
		} else {
			f.allocType = t
		}
		ref := f.allocObj(st, elem, R)
		f.zeroObject(st, ref, f.l.classesOf(t))
		f.setVal(fr, in, Val{T: in.Type(), L: []string{ref, bv64(0), bv64(0)}})
	case *ssa.Store:
		addr := f.val(fr, in.Addr)
		v := f.val(fr, in.Val)
		if v.Loc != nil {
			unsupp("storing the address of a local")
		}
		if addr.Loc != nil {
			a := addr.Loc.A.(*ssa.Alloc)
			cur := st.locals[a]
			nl := append([]string(nil), cur...)
			copy(nl[addr.Loc.Off:], v.L)
			st.locals[a] = nl
			return
		}
		f.nilCheck(R, addr, in.Pos())
		f.guardedAccess(fr, st, R, in.Addr, true)
		f.guardedElems(fr, st, R, addr.L[0], in.Pos(), "write")
		f.store(st, ptrAddr(addr), Val{T: derefType(addr.T), L: v.L})
	case *ssa.UnOp:
		f.unop(fr, st, R, in)
	case *ssa.BinOp:
		x, y := f.val(fr, in.X), f.val(fr, in.Y)
		f.setVal(fr, in, f.binop(R, in.Op, x, y, in.Type(), in.Pos()))
	case *ssa.FieldAddr:
		base := f.val(fr, in.X)
		st_ := derefType(base.T)
		fi := f.l.structFields(st_)[in.Field]
		if base.Loc != nil {
			fr.vals[in] = Val{T: in.Type(), Loc: &LocalAddr{A: base.Loc.A, Off: base.Loc.Off + fi.Off, T: fi.T}}
			return
		}
		f.nilCheck(R, base, in.Pos())
		a := ptrAddr(base).plusSub(fi.Off)
		via := a.Via
		if _, named := st_.(*types.Named); named {
			via = append(append([]viaTag(nil), via...), viaTag{st_, fi.Off})
		}
		f.setVal(fr, in, Val{T: in.Type(), L: []string{a.Ref, a.Idx, a.Sub}, Via: via})
	case *ssa.Field:
		base := f.val(fr, in.X)
		fi := f.l.structFields(base.T)[in.Field]
		n := f.l.cells(fi.T)
		f.setVal(fr, in, Val{T: in.Type(), L: base.L[fi.Off : fi.Off+n]})
	case *ssa.IndexAddr:
		f.indexAddr(fr, st, R, in)
	case *ssa.Index:
		x := f.val(fr, in.X)
		idx := f.val(fr, in.Index)
		switch u := x.T.Underlying().(type) {
		case *types.Array:
			ec := f.l.cells(u.Elem())
			i64 := f.toIdx(idx)
			f.safety("index", R, "(bvult "+i64+" "+bv64(u.Len())+")", in.Pos())
			sorts := f.l.leafSorts(u.Elem())
			out := Val{T: in.Type(), L: make([]string, ec)}
			for k := 0; k < ec; k++ {
				t := zeroOf(sorts[k])
				for j := int(u.Len()) - 1; j >= 0; j-- {
					t = ite(eq(i64, bv64(int64(j))), x.L[j*ec+k], t)
				}
				out.L[k] = t
			}
			f.setVal(fr, in, out)
		case *types.Basic: // string constant index (generic)
			i64 := f.toIdx(idx)
			f.safety("index", R, "(bvult "+i64+" (slen "+x.L[0]+"))", in.Pos())
			f.setVal(fr, in, Val{T: in.Type(), L: []string{"(sbyte " + x.L[0] + " " + i64 + ")"}})
		default:
			unsupp("Index on %s", x.T)
		}
	case *ssa.Lookup:
		f.lookup(fr, st, R, in)
	case *ssa.Slice:
		f.sliceOp(fr, st, R, in)
	case *ssa.MakeSlice:
		l := f.toIdx(f.val(fr, in.Len))
		c := f.toIdx(f.val(fr, in.Cap))
		f.safety("makeslice", R, and("(bvule "+l+" "+c+")", "(bvult "+c+" "+bv64(maxLen)+")"), in.Pos())
		et := in.Type().Underlying().(*types.Slice).Elem()
		ref := f.allocObj(st, et, R)
		f.zeroObject(st, ref, f.l.classesOf(et))
		f.setVal(fr, in, Val{T: in.Type(), L: []string{ref, bv64(0), bv64(0), l, c}})
	case *ssa.MakeMap:
		ref := f.allocObj(st, nil, R)
		f.mapInit(st, in.Type(), ref)
		f.setVal(fr, in, Val{T: in.Type(), L: []string{ref}})
	case *ssa.MakeChan:
		ref := f.allocObj(st, nil, R)
		f.setVal(fr, in, Val{T: in.Type(), L: []string{ref}})
	case *ssa.MapUpdate:
		f.mapUpdate(fr, st, R, in)
	case *ssa.MakeInterface:
		x := f.val(fr, in.X)
		f.setVal(fr, in, f.makeIface(st, x, in.Type()))
	case *ssa.ChangeInterface:
		x := f.val(fr, in.X)
		f.setVal(fr, in, Val{T: in.Type(), L: x.L})
	case *ssa.ChangeType:
		x := f.val(fr, in.X)
		if x.Loc != nil {
			fr.vals[in] = Val{T: in.Type(), Loc: x.Loc}
			return
		}
		f.setVal(fr, in, Val{T: in.Type(), L: x.L})
	case *ssa.Convert:
		f.convert(fr, st, R, in)
	case *ssa.TypeAssert:
		f.typeAssert(fr, st, R, in)
	case *ssa.Extract:
		t := f.val(fr, in.Tuple)
		tup := t.T.(*types.Tuple)
		off := 0
		for i := 0; i < in.Index; i++ {
			off += f.l.cells(tup.At(i).Type())
		}
		n := f.l.cells(tup.At(in.Index).Type())
		f.setVal(fr, in, Val{T: in.Type(), L: t.L[off : off+n]})
	case *ssa.Phi:
		// NaiveForm only produces phis for && and ||; edges are the
		// block's predecessors in order.
		b := in.Block()
		var out Val
		first := true
		for i := len(in.Edges) - 1; i >= 0; i-- {
			p := b.Preds[i]
			ev, ok := f.tryVal(fr, in.Edges[i])
			if !ok {
				continue
			}
			if first {
				out = Val{T: in.Type(), L: append([]string(nil), ev.L...)}
				first = false
				continue
			}
			cond := f.phiEdge(fr, p, b)
			for k := range out.L {
				out.L[k] = ite(cond, ev.L[k], out.L[k])
			}
		}
		f.setVal(fr, in, out)
	case *ssa.Call:
		f.call(fr, st, R, in, in.Common(), in.Pos())
	case *ssa.Defer:
		f.deferInstr(fr, st, R, in)
	case *ssa.RunDefers:
		f.runDefers(fr, st, R)
	case *ssa.Go:
		f.c.notes["go statement: spawned call not interleaved ("+f.eng.fnKey(f.fn)+")"] = true
	case *ssa.MakeClosure:
		fnc := in.Fn.(*ssa.Function)
		var bs []Val
		for _, b := range in.Bindings {
			bs = append(bs, f.val(fr, b))
		}
		fr.closures[in] = &closureRec{fn: fnc, bindings: bs}
		// closure value: fresh object id
		ref := f.allocObj(st, nil, R)
		f.setVal(fr, in, Val{T: in.Type(), L: []string{ref}})
	case *ssa.Range:
		x := f.val(fr, in.X)
		fr.vals[in] = Val{T: in.Type(), L: x.L}
		f.rangeStart(fr, st, R, in)
	case *ssa.Next:
		f.next(fr, st, R, in)
	case *ssa.Select:
		f.c.notes["select: results havocked, blocking not modelled"] = true
		v := f.freshVal("sel", in.Type())
		f.c.assume(R, f.wf(st, v))
		// the chosen case index is one of the cases (or -1 for a select with a default)
		lo := int64(0)
		if !in.Blocking {
			lo = -1
		}
		f.c.assume(R, and("(bvsle "+bv64(lo)+" "+v.L[0]+")", "(bvslt "+v.L[0]+" "+bv64(int64(len(in.States)))+")"))
		f.setVal(fr, in, v)
	case *ssa.Send:
		f.c.notes["channel send: no effect modelled"] = true
	case *ssa.SliceToArrayPointer:
		x := f.val(fr, in.X)
		n := derefType(in.Type()).Underlying().(*types.Array).Len()
		f.safety("slice2array", R, "(bvule "+bv64(n)+" "+x.L[3]+")", in.Pos())
		f.setVal(fr, in, Val{T: in.Type(), L: x.L[:3]})
	default:
		unsupp("instruction %T (%s)", in, in)
	}
}

func (f *FnEnc) tryVal(fr *Frame, v ssa.Value) (x Val, ok bool) {
	defer func() {
		if r := recover(); r != nil {
			if s, is := r.(string); is && len(s) > 5 && s[:5] == "value" {
				ok = false
				return
			}
			panic(r)
		}
	}()
	return f.val(fr, v), true
}

// phiEdge returns the condition under which control reached b from p.
func (f *FnEnc) phiEdge(fr *Frame, p, b *ssa.BasicBlock) string {
	var cs []string
	for si, s := range p.Succs {
		if s == b {
			cs = append(cs, fr.edgeCond[edgeKey{p, si}])
		}
	}
	return or(cs...)
}

func (f *FnEnc) nilCheck(R string, p Val, pos token.Pos) {
	if p.Loc != nil {
		return
	}
	if p.L[0] == "0" {
		f.safety("nil", R, "false", pos)
		return
	}
	// a check of the same reference under the same or a weaker
	// reachability condition has already been emitted (and is assumed by
	// later obligations): skip the duplicate
	key := p.L[0]
	for _, g := range f.nilChecked[key] {
		if g == R || g == "true" {
			return
		}
		if f.curFrame != nil && f.dominatesGuard(g, R) {
			return
		}
	}
	if f.nilChecked == nil {
		f.nilChecked = map[string][]string{}
	}
	f.nilChecked[key] = append(f.nilChecked[key], R)
	f.safety("nil", R, not(eq(p.L[0], "0")), pos)
}

// dominatesGuard reports whether the block whose reachability variable is g
// dominates the block whose variable is r (same frame).
func (f *FnEnc) dominatesGuard(g, r string) bool {
	fr := f.curFrame
	var gb, rb *ssa.BasicBlock
	for b, n := range fr.reach {
		if n == g {
			gb = b
		}
		if n == r {
			rb = b
		}
	}
	if gb == nil || rb == nil {
		return false
	}
	return gb.Dominates(rb)
}

// readOnlyFreeVar: every use of the captured variable's cell in the closure
// is a load.
func readOnlyFreeVar(fv *ssa.FreeVar) bool {
	refs := fv.Referrers()
	if refs == nil {
		return true
	}
	for _, r := range *refs {
		switch r := r.(type) {
		case *ssa.UnOp:
			if r.Op != token.MUL {
				return false
			}
		case *ssa.DebugRef:
		default:
			return false
		}
	}
	return true
}

// toIdx converts an integer value to a 64-bit index term.
func (f *FnEnc) toIdx(v Val) string {
	w := intWidth(v.T)
	return extend(v.L[0], w, 64, isSigned(v.T))
}

func (f *FnEnc) unop(fr *Frame, st *State, R string, in *ssa.UnOp) {
	x := f.val(fr, in.X)
	switch in.Op {
	case token.MUL: // load
		// a captured variable that the closure under contract only reads:
		// its value is the entry value throughout (nothing the closure
		// calls can reach the cell except the enclosing function, which is
		// not running; see also the note on go statements)
		if fv, ok := in.X.(*ssa.FreeVar); ok && fr == f.top {
			if v, ok := f.params[fv.Name()]; ok && readOnlyFreeVar(fv) && derefType(fv.Type()) != nil && len(v.L) == f.l.cells(in.Type()) {
				f.setVal(fr, in, Val{T: in.Type(), L: v.L})
				return
			}
		}
		if x.Loc != nil {
			a := x.Loc.A.(*ssa.Alloc)
			n := f.l.cells(x.Loc.T)
			cur, ok := st.locals[a]
			if !ok {
				cur = f.zero(derefType(a.Type())).L
				st.locals[a] = cur
			}
			f.setVal(fr, in, Val{T: in.Type(), L: cur[x.Loc.Off : x.Loc.Off+n]})
			return
		}
		f.nilCheck(R, x, in.Pos())
		f.guardedAccess(fr, st, R, in.X, false)
		f.guardedElems(fr, st, R, x.L[0], in.Pos(), "read")
		v := f.load(st, in.Type(), ptrAddr(x))
		f.c.assume(R, f.wf(st, v))
		f.setVal(fr, in, v)
	case token.NOT:
		f.setVal(fr, in, Val{T: in.Type(), L: []string{not(x.L[0])}})
	case token.SUB:
		if isFloat(x.T) {
			f.setVal(fr, in, f.ufVal("fneg", in.Type(), x))
			return
		}
		f.setVal(fr, in, Val{T: in.Type(), L: []string{"(bvneg " + x.L[0] + ")"}})
	case token.XOR:
		f.setVal(fr, in, Val{T: in.Type(), L: []string{"(bvnot " + x.L[0] + ")"}})
	case token.ARROW:
		f.c.notes["channel receive: value havocked, blocking not modelled"] = true
		v := f.freshVal("recv", in.Type())
		f.c.assume(R, f.wf(st, v))
		f.setVal(fr, in, v)
	default:
		unsupp("unary operator %s", in.Op)
	}
}

// ufVal applies an uninterpreted function named after op and the operand
// sorts to the leaves of args.
func (f *FnEnc) ufVal(op string, ret types.Type, args ...Val) Val {
	var as, sorts []string
	for _, a := range args {
		ss := f.l.leafSorts(a.T)
		for i := range a.L {
			as = append(as, a.L[i])
			sorts = append(sorts, ss[i])
		}
	}
	rs := f.l.leafSorts(ret)
	out := Val{T: ret, L: make([]string, len(rs))}
	for k, so := range rs {
		name := fmt.Sprintf("uf!%s!%d", sanitize(op), k)
		for _, s := range sorts {
			name += "_" + className(s)
		}
		f.c.declareFun(name, sorts, so)
		out.L[k] = app(name, as...)
	}
	return out
}

func (f *FnEnc) binop(R string, op token.Token, x, y Val, rt types.Type, pos token.Pos) Val {
	out := func(t string) Val { return Val{T: rt, L: []string{t}} }
	switch op {
	case token.EQL, token.NEQ:
		e := f.valEq(x, y)
		if op == token.NEQ {
			e = not(e)
		}
		return out(e)
	}
	if isString(x.T) {
		switch op {
		case token.ADD:
			r := f.ufVal("sconcat", rt, x, y)
			f.c.assume(R, eq("(slen "+r.L[0]+")", "(bvadd (slen "+x.L[0]+") (slen "+y.L[0]+"))"))
			f.c.assume(R, "(bvult (slen "+r.L[0]+") "+bv64(maxLen)+")")
			// concatenation with an empty string
			f.c.assume(R, and(implies(eq("(slen "+y.L[0]+")", bv64(0)), eq(r.L[0], x.L[0])), implies(eq("(slen "+x.L[0]+")", bv64(0)), eq(r.L[0], y.L[0]))))
			// the bytes of a concatenation
			f.c.assume(R, "(forall ((i!q (_ BitVec 64))) (! (= (sbyte "+r.L[0]+" i!q) (ite (bvult i!q (slen "+x.L[0]+")) (sbyte "+x.L[0]+" i!q) (sbyte "+y.L[0]+" (bvsub i!q (slen "+x.L[0]+"))))) :pattern ((sbyte "+r.L[0]+" i!q))))")
			return r
		case token.LSS, token.LEQ, token.GTR, token.GEQ:
			return f.ufVal("scmp_"+op.String(), rt, x, y)
		}
		unsupp("string operator %s", op)
	}
	if isFloat(x.T) {
		return f.ufVal("f"+op.String(), rt, x, y)
	}
	if isBool(x.T) {
		switch op {
		case token.AND, token.LAND:
			return out(and(x.L[0], y.L[0]))
		case token.OR, token.LOR:
			return out(or(x.L[0], y.L[0]))
		}
		unsupp("bool operator %s", op)
	}
	if !isInteger(x.T) {
		unsupp("operator %s on %s", op, x.T)
	}
	a, b := x.L[0], y.L[0]
	w := intWidth(x.T)
	signed := isSigned(x.T)
	switch op {
	case token.ADD:
		if f.con != nil && f.con.IntOverflow {
			f.overflow(R, "add", a, b, w, signed, pos)
		}
		return out("(bvadd " + a + " " + b + ")")
	case token.SUB:
		if f.con != nil && f.con.IntOverflow {
			f.overflow(R, "sub", a, b, w, signed, pos)
		}
		return out("(bvsub " + a + " " + b + ")")
	case token.MUL:
		if f.con != nil && f.con.IntOverflow {
			f.overflow(R, "mul", a, b, w, signed, pos)
		}
		return out("(bvmul " + a + " " + b + ")")
	case token.QUO:
		f.safety("div0", R, not(eq(b, bvLitI(0, w))), pos)
		if signed {
			return out("(bvsdiv " + a + " " + b + ")")
		}
		return out("(bvudiv " + a + " " + b + ")")
	case token.REM:
		f.safety("div0", R, not(eq(b, bvLitI(0, w))), pos)
		if signed {
			return out("(bvsrem " + a + " " + b + ")")
		}
		return out("(bvurem " + a + " " + b + ")")
	case token.AND:
		return out("(bvand " + a + " " + b + ")")
	case token.OR:
		return out("(bvor " + a + " " + b + ")")
	case token.XOR:
		return out("(bvxor " + a + " " + b + ")")
	case token.AND_NOT:
		return out("(bvand " + a + " (bvnot " + b + "))")
	case token.SHL, token.SHR:
		yw := intWidth(y.T)
		if isSigned(y.T) {
			f.safety("negshift", R, "(bvsge "+b+" "+bvLitI(0, yw)+")", pos)
		}
		return out(shiftTerm(op, a, w, signed, b, yw))
	case token.LSS, token.LEQ, token.GTR, token.GEQ:
		var o string
		switch op {
		case token.LSS:
			o = "lt"
		case token.LEQ:
			o = "le"
		case token.GTR:
			o = "gt"
		case token.GEQ:
			o = "ge"
		}
		if signed {
			return out("(bvs" + o + " " + a + " " + b + ")")
		}
		return out("(bvu" + o + " " + a + " " + b + ")")
	}
	unsupp("integer operator %s", op)
	return Val{}
}

func shiftTerm(op token.Token, a string, w int, signed bool, b string, yw int) string {
	var amt string
	big := "false"
	if yw > w {
		big = "(bvuge " + b + " " + bvLitI(int64(w), yw) + ")"
		amt = extend(b, yw, w, false)
	} else {
		amt = extend(b, yw, w, false)
	}
	switch {
	case op == token.SHL:
		return ite(big, bvLitI(0, w), "(bvshl "+a+" "+amt+")")
	case signed:
		return ite(big, "(bvashr "+a+" "+bvLitI(int64(w-1), w)+")", "(bvashr "+a+" "+amt+")")
	default:
		return ite(big, bvLitI(0, w), "(bvlshr "+a+" "+amt+")")
	}
}

func (f *FnEnc) overflow(R, op, a, b string, w int, signed bool, pos token.Pos) {
	var ok string
	ext := func(t string) string { return extend(t, w, 2*w, signed) }
	var wide string
	switch op {
	case "add":
		wide = "(bvadd " + ext(a) + " " + ext(b) + ")"
	case "sub":
		wide = "(bvsub " + ext(a) + " " + ext(b) + ")"
	case "mul":
		wide = "(bvmul " + ext(a) + " " + ext(b) + ")"
	}
	var narrow string
	switch op {
	case "add":
		narrow = "(bvadd " + a + " " + b + ")"
	case "sub":
		narrow = "(bvsub " + a + " " + b + ")"
	case "mul":
		narrow = "(bvmul " + a + " " + b + ")"
	}
	ok = eq(wide, ext(narrow))
	if op == "mul" && !signed {
		name := fmt.Sprintf("umul_noovfl!%d", w)
		if !f.c.ufs[name] {
			f.c.ufs[name] = true
			bs := bvSort(w)
			f.c.raw("SOLVERDEF\t" +
				fmt.Sprintf("(define-fun %s ((a!p %s) (b!p %s)) Bool (bvumul_noovfl a!p b!p))", name, bs, bs) + "\t" +
				fmt.Sprintf("(define-fun %s ((a!p %s) (b!p %s)) Bool (= ((_ extract %d %d) (bvmul ((_ zero_extend %d) a!p) ((_ zero_extend %d) b!p))) (_ bv0 %d)))", name, bs, bs, 2*w-1, w, w, w, w))
		}
		ok = "(" + name + " " + a + " " + b + ")"
	}
	n := f.nextOrd("overflow:" + op)
	f.c.oblige(Item{Guard: R, Formula: ok, Name: f.obName("nooverflow", fmt.Sprintf("%s#%d", op, n)), Class: "safe", Pos: f.pos(pos), Text: "no overflow in " + op})
}

// valEq is Go's == on two values of the same type.
func (f *FnEnc) valEq(x, y Val) string {
	if x.Loc != nil || y.Loc != nil {
		unsupp("comparison of local addresses")
	}
	// interface vs concrete nil etc. are normalised by go/ssa
	if _, ok := x.T.Underlying().(*types.Interface); ok {
		// nil comparison: only the tag matters
		if y.L[0] == "0" {
			return eq(x.L[0], "0")
		}
		if x.L[0] == "0" {
			return eq(y.L[0], "0")
		}
		return f.ifaceEq(x, y)
	}
	if _, ok := x.T.Underlying().(*types.Slice); ok {
		// only comparison with nil is legal
		return eq(x.L[0], "0")
	}
	if isString(x.T) {
		if y.L[0] == "str_empty" {
			return eq("(slen "+x.L[0]+")", bv64(0))
		}
		if x.L[0] == "str_empty" {
			return eq("(slen "+y.L[0]+")", bv64(0))
		}
	}
	if isFloat(x.T) {
		return f.ufVal("feq", types.Typ[types.Bool], x, y).L[0]
	}
	var es []string
	n := len(x.L)
	if len(y.L) < n {
		n = len(y.L)
	}
	if p, ok := x.T.Underlying().(*types.Pointer); ok && y.L[0] != "0" && x.L[0] != "0" {
		_ = p
	}
	if _, ok := x.T.Underlying().(*types.Pointer); ok && (y.L[0] == "0" || x.L[0] == "0") {
		return eq(x.L[0], y.L[0])
	}
	for i := 0; i < n; i++ {
		es = append(es, eq(x.L[i], y.L[i]))
	}
	return and(es...)
}

// ifaceEq is == on two interface values: equal dynamic types and equal
// dynamic values.  Pointer-shaped dynamic types compare by reference; boxed
// ones by content (decided here for the basic types, left open - an
// uninterpreted predicate - for other boxed types, e.g. structs).
func (f *FnEnc) ifaceEq(x, y Val) string {
	sameRef := and(eq(x.L[1], y.L[1]), eq(x.L[2], y.L[2]), eq(x.L[3], y.L[3]))
	var tags []int
	for n := range f.c.boxedBasic {
		tags = append(tags, n)
	}
	sort.Ints(tags)
	st := f.eqState
	var cases, known []string
	for _, n := range tags {
		t := f.c.boxedBasic[n]
		isT := eq(x.L[0], fmt.Sprint(n))
		known = append(known, isT)
		if st == nil {
			continue
		}
		xv := f.load(st, t, Addr{Ref: x.L[1], Idx: x.L[2], Sub: x.L[3]})
		yv := f.load(st, t, Addr{Ref: y.L[1], Idx: y.L[2], Sub: y.L[3]})
		cases = append(cases, and(isT, f.valEq(xv, yv)))
	}
	f.c.declareFun("ifaceboxeq", []string{SInt, SInt, SBV64, SBV64, SInt, SBV64, SBV64}, SBool)
	other := and(not(or(known...)), app("ifaceboxeq", x.L[0], x.L[1], x.L[2], x.L[3], y.L[1], y.L[2], y.L[3]))
	boxedEq := or(append(append([]string{sameRef}, cases...), other)...)
	return and(eq(x.L[0], y.L[0]), ite("(boxedtag "+x.L[0]+")", boxedEq, sameRef))
}

func (f *FnEnc) indexAddr(fr *Frame, st *State, R string, in *ssa.IndexAddr) {
	x := f.val(fr, in.X)
	idx := f.toIdx(f.val(fr, in.Index))
	switch u := x.T.Underlying().(type) {
	case *types.Slice:
		f.safety("index", R, "(bvult "+idx+" "+x.L[3]+")", in.Pos())
		a := f.elemAddr(Addr{Ref: x.L[0], Idx: x.L[1], Sub: x.L[2]}, u.Elem(), idx)
		f.setVal(fr, in, Val{T: in.Type(), L: []string{a.Ref, a.Idx, a.Sub}})
	case *types.Pointer:
		arr := u.Elem().Underlying().(*types.Array)
		if x.Loc != nil {
			unsupp("IndexAddr on local array")
		}
		f.nilCheck(R, x, in.Pos())
		f.safety("index", R, "(bvult "+idx+" "+bv64(arr.Len())+")", in.Pos())
		var a Addr
		ec := f.l.cells(arr.Elem())
		switch {
		case ec == 1:
			a = Addr{Ref: x.L[0], Idx: x.L[1], Sub: bvadd(x.L[2], idx)}
		case f.l.idxArray(u.Elem()):
			a = Addr{Ref: x.L[0], Idx: bvadd(x.L[1], idx), Sub: x.L[2]}
		default: // single multi-cell element
			a = Addr{Ref: x.L[0], Idx: x.L[1], Sub: x.L[2]}
		}
		f.setVal(fr, in, Val{T: in.Type(), L: []string{a.Ref, a.Idx, a.Sub}})
	default:
		unsupp("IndexAddr on %s", x.T)
	}
}

// elemAddr is the address of element i of a slice based at a.
func (e *Enc) elemAddr(a Addr, elem types.Type, i string) Addr {
	if e.l.oneCell(elem) {
		return Addr{Ref: a.Ref, Idx: a.Idx, Sub: e.ixadd(a.Sub, i)}
	}
	return Addr{Ref: a.Ref, Idx: e.ixadd(a.Idx, i), Sub: a.Sub}
}

// sliceBase is the address of the first element of s[lo:...] (plain sum:
// reslicing is not a trigger position).
func (e *Enc) sliceBase(a Addr, elem types.Type, lo string) Addr {
	if e.l.oneCell(elem) {
		return Addr{Ref: a.Ref, Idx: a.Idx, Sub: bvadd(a.Sub, lo)}
	}
	return Addr{Ref: a.Ref, Idx: bvadd(a.Idx, lo), Sub: a.Sub}
}

// ixadd is base+i for element addresses.  With the contract flag `ematch`
// the sum is wrapped in the function ix (axiom: ix(a,b) = a+b) so that
// quantified facts about slice elements have arithmetic-free triggers.
func (e *Enc) ixadd(base, i string) string {
	if e.ixWrap {
		if !e.c.ufs["ix"] {
			e.c.ufs["ix"] = true
			e.c.raw("(declare-fun ix ((_ BitVec 64) (_ BitVec 64)) (_ BitVec 64))")
			e.c.raw("(assert (forall ((a!q (_ BitVec 64)) (b!q (_ BitVec 64))) (! (= (ix a!q b!q) (bvadd a!q b!q)) :pattern ((ix a!q b!q)))))")
		}
		return "(ix " + base + " " + i + ")"
	}
	return bvadd(base, i)
}

func (f *FnEnc) sliceOp(fr *Frame, st *State, R string, in *ssa.Slice) {
	x := f.val(fr, in.X)
	var lo, hi, max string
	if in.Low != nil {
		lo = f.toIdx(f.val(fr, in.Low))
	} else {
		lo = bv64(0)
	}
	if in.High != nil {
		hi = f.toIdx(f.val(fr, in.High))
	}
	if in.Max != nil {
		max = f.toIdx(f.val(fr, in.Max))
	}
	switch u := x.T.Underlying().(type) {
	case *types.Basic: // string
		s := x.L[0]
		if hi == "" {
			hi = "(slen " + s + ")"
		}
		f.safety("slice", R, and("(bvule "+lo+" "+hi+")", "(bvule "+hi+" (slen "+s+"))"), in.Pos())
		f.setVal(fr, in, f.substr(R, x, lo, hi, in.Type()))
	case *types.Slice:
		if hi == "" {
			hi = x.L[3]
		}
		capv := x.L[4]
		if max == "" {
			max = capv
			f.safety("slice", R, and("(bvule "+lo+" "+hi+")", "(bvule "+hi+" "+capv+")"), in.Pos())
		} else {
			f.safety("slice", R, and("(bvule "+lo+" "+hi+")", "(bvule "+hi+" "+max+")", "(bvule "+max+" "+capv+")"), in.Pos())
		}
		a := f.sliceBase(Addr{Ref: x.L[0], Idx: x.L[1], Sub: x.L[2]}, u.Elem(), lo)
		f.setVal(fr, in, Val{T: in.Type(), L: []string{a.Ref, a.Idx, a.Sub, "(bvsub " + hi + " " + lo + ")", "(bvsub " + max + " " + lo + ")"}})
	case *types.Pointer:
		arr := u.Elem().Underlying().(*types.Array)
		n := bv64(arr.Len())
		if hi == "" {
			hi = n
		}
		if max == "" {
			max = n
		}
		f.nilCheck(R, x, in.Pos())
		f.safety("slice", R, and("(bvule "+lo+" "+hi+")", "(bvule "+hi+" "+max+")", "(bvule "+max+" "+n+")"), in.Pos())
		if x.Loc != nil {
			unsupp("slicing a local array")
		}
		a := f.sliceBase(Addr{Ref: x.L[0], Idx: x.L[1], Sub: x.L[2]}, arr.Elem(), lo)
		f.setVal(fr, in, Val{T: in.Type(), L: []string{a.Ref, a.Idx, a.Sub, "(bvsub " + hi + " " + lo + ")", "(bvsub " + max + " " + lo + ")"}})
	default:
		unsupp("Slice on %s", x.T)
	}
}

// substr models s[lo:hi] on strings.
func (f *FnEnc) substr(R string, x Val, lo, hi string, rt types.Type) Val {
	f.c.declareFun("ssub", []string{SStr, SBV64, SBV64}, SStr)
	r := f.c.define("sub", SStr, app("ssub", x.L[0], lo, hi))
	f.c.assume(R, eq("(slen "+r+")", "(bvsub "+hi+" "+lo+")"))
	f.c.assume(R, implies(and(eq(lo, bv64(0)), eq(hi, "(slen "+x.L[0]+")")), eq(r, x.L[0])))
	if f.c.strExt {
		f.c.assume(R, "(forall ((k!q (_ BitVec 64))) (! (=> (bvult k!q (bvsub "+hi+" "+lo+")) (= (sbyte "+r+" k!q) (sbyte "+x.L[0]+" (bvadd "+lo+" k!q)))) :pattern ((sbyte "+r+" k!q))))")
	}
	return Val{T: rt, L: []string{r}}
}

func (f *FnEnc) convert(fr *Frame, st *State, R string, in *ssa.Convert) {
	x := f.val(fr, in.X)
	from, to := x.T, in.Type()
	switch {
	case isInteger(from) && isInteger(to):
		f.setVal(fr, in, Val{T: to, L: []string{extend(x.L[0], intWidth(from), intWidth(to), isSigned(from))}})
	case (isInteger(from) || isFloat(from)) && (isInteger(to) || isFloat(to)):
		f.setVal(fr, in, f.ufVal("conv_"+types.TypeString(from.Underlying(), nil)+"_"+types.TypeString(to.Underlying(), nil), to, x))
	case isString(to) && isInteger(from):
		r := f.ufVal("runestr", to, x)
		f.c.assume(R, "(bvule (slen "+r.L[0]+") "+bv64(4)+")")
		f.setVal(fr, in, r)
	case isString(to) && isString(from):
		f.setVal(fr, in, Val{T: to, L: x.L})
	case isString(to): // []byte or []rune -> string
		sl := from.Underlying().(*types.Slice)
		r := f.c.fresh("s_of_bytes", SStr)
		if f.l.cells(sl.Elem()) == 1 && intWidth(sl.Elem()) == 8 {
			f.c.assume(R, eq("(slen "+r+")", x.L[3]))
			if f.c.strExt {
				inner := sel(sel(f.heap(st, SBV8), x.L[0]), x.L[1])
				f.c.assume(R, "(forall ((k!q (_ BitVec 64))) (! (=> (bvult k!q "+x.L[3]+") (= (sbyte "+r+" k!q) (select "+inner+" (bvadd "+x.L[2]+" k!q)))) :pattern ((sbyte "+r+" k!q))))")
			}
		} else {
			f.c.assume(R, "(bvult (slen "+r+") "+bv64(maxLen)+")")
		}
		f.setVal(fr, in, Val{T: to, L: []string{r}})
	case isString(from): // string -> []byte / []rune
		sl := to.Underlying().(*types.Slice)
		ref := f.allocObj(st, sl.Elem(), R)
		if intWidth(sl.Elem()) == 8 {
			n := "(slen " + x.L[0] + ")"
			h := f.heap(st, SBV8)
			f.noteWrite(writeRec{Class: SBV8, Kind: "object", Ref: ref})
			inner := f.c.lambda(SBV8, "(sbyte "+x.L[0]+" k!l)")
			z := fmt.Sprintf("((as const %s) %s)", midSort(SBV8), inner)
			setHeap(st, SBV8, f.c.define("HBV8", heapSort(SBV8), sto(h, ref, z)))
			f.setVal(fr, in, Val{T: to, L: []string{ref, bv64(0), bv64(0), n, n}})
		} else {
			n := f.c.fresh("nrunes", SBV64)
			f.c.assume(R, "(bvule "+n+" (slen "+x.L[0]+"))")
			f.havocObject(st, ref, []string{SBV32})
			f.setVal(fr, in, Val{T: to, L: []string{ref, bv64(0), bv64(0), n, n}})
		}
	default:
		unsupp("conversion %s -> %s", from, to)
	}
}

// havocObject makes the contents of object ref arbitrary.
func (f *FnEnc) havocObject(st *State, ref string, classes []string) {
	for _, so := range classes {
		f.noteWrite(writeRec{Class: so, Kind: "object", Ref: ref})
		h := f.heap(st, so)
		fr := f.c.fresh("hv", midSort(so))
		if so == SBool {
			// object(x) stands for the object's program data: the lock
			// ghosts of mutexes inside it stay as they were unless the
			// contract also names held(...) (lock-balanced callees)
			if pred := f.heldCellPred(); pred != "" {
				old := f.c.define("mid", midSort(so), sel(h, ref))
				p1 := strings.ReplaceAll(pred, "r!q", ref)
				f.c.assume(f.curGuardOrTrue(), "(forall ((i!q (_ BitVec 64)) (s!q (_ BitVec 64))) (! (=> "+p1+" (= (select (select "+fr+" i!q) s!q) (select (select "+old+" i!q) s!q))) :pattern ((select (select "+fr+" i!q) s!q))))")
			}
		}
		setHeap(st, so, f.c.define("H"+className(so), heapSort(so), sto(h, ref, fr)))
	}
}

func pointerLike(t types.Type) bool {
	switch t.Underlying().(type) {
	case *types.Pointer:
		return true
	}
	return false
}

func refLike(t types.Type) bool {
	switch t.Underlying().(type) {
	case *types.Map, *types.Chan, *types.Signature:
		return true
	}
	return false
}

func (f *FnEnc) makeIface(st *State, x Val, it types.Type) Val {
	tag := f.c.typeTag(x.T)
	switch {
	case x.Loc != nil:
		unsupp("interface holding the address of a local")
	case pointerLike(x.T):
		return Val{T: it, L: []string{tag, x.L[0], x.L[1], x.L[2]}}
	case refLike(x.T):
		return Val{T: it, L: []string{tag, x.L[0], bv64(0), bv64(0)}}
	}
	if _, ok := x.T.Underlying().(*types.Interface); ok {
		return Val{T: it, L: x.L}
	}
	// box the value in a fresh immutable object
	ref := f.allocObj(st, nil, f.curGuard)
	if len(x.L) > 0 {
		f.store(st, Addr{Ref: ref, Idx: bv64(0), Sub: bv64(0)}, x)
	}
	return Val{T: it, L: []string{tag, ref, bv64(0), bv64(0)}}
}

func (f *FnEnc) typeAssert(fr *Frame, st *State, R string, in *ssa.TypeAssert) {
	x := f.val(fr, in.X)
	at := in.AssertedType
	var ok string
	var v Val
	if _, isIface := at.Underlying().(*types.Interface); isIface {
		name := "implements!" + sanitize(types.TypeString(at, nil))
		f.c.declareFun(name, []string{SInt}, SBool)
		ok = and(not(eq(x.L[0], "0")), app(name, x.L[0]))
		v = Val{T: at, L: x.L}
	} else {
		ok = eq(x.L[0], f.c.typeTag(at))
		switch {
		case pointerLike(at):
			v = Val{T: at, L: []string{x.L[1], x.L[2], x.L[3]}}
		case refLike(at):
			v = Val{T: at, L: []string{x.L[1]}}
		default:
			v = f.load(st, at, Addr{Ref: x.L[1], Idx: x.L[2], Sub: x.L[3]})
			f.c.assume(R, implies(ok, f.wf(st, v)))
		}
	}
	if in.CommaOk {
		z := f.zero(at)
		out := Val{T: in.Type()}
		for i := range v.L {
			out.L = append(out.L, ite(ok, v.L[i], z.L[i]))
		}
		out.L = append(out.L, ok)
		f.setVal(fr, in, out)
		return
	}
	f.safety("typeassert", R, ok, in.Pos())
	f.setVal(fr, in, v)
}
