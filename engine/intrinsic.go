package main

// Exact semantics for a few standard-library functions (arithmetic and
// atomics); everything else goes through the trusted table.

import (
	"fmt"
	"go/token"
	"go/types"

	"golang.org/x/tools/go/ssa"
)

func (f *FnEnc) intrinsic(fr *Frame, st *State, R string, in ssa.Value, callee *ssa.Function, args []Val, pos token.Pos) bool {
	name := callee.String()
	set := func(ls ...string) bool {
		if in != nil {
			f.setResult(fr, in, Val{T: in.Type(), L: ls})
		}
		f.c.trusted["intrinsic "+name+" (exact bit-vector definition)"] = true
		return true
	}
	switch name {
	case "sort.Slice", "sort.SliceStable":
		// the elements of the slice are permuted in place: new[k] = old[perm(k)]
		// with perm a map of [0,len) into itself (an uninterpreted function per
		// call; that it is a bijection is not used)
		call, ok := in.(*ssa.Call)
		if !ok {
			return false
		}
		mi, ok := call.Call.Args[0].(*ssa.MakeInterface)
		if !ok {
			return false
		}
		slt, ok := mi.X.Type().Underlying().(*types.Slice)
		if !ok {
			return false
		}
		x := f.val(fr, mi.X)
		f.c.n++
		perm := fmt.Sprintf("perm!%d", f.c.n)
		f.c.declareFun(perm, []string{SBV64}, SBV64)
		f.c.assume(R, "(forall ((k!q (_ BitVec 64))) (! (=> (bvult k!q "+x.L[3]+") (bvult ("+perm+" k!q) "+x.L[3]+")) :pattern (("+perm+" k!q))))")
		et := slt.Elem()
		if f.l.oneCell(et) {
			so := f.l.leafSorts(et)[0]
			h := f.heap(st, so)
			f.noteWrite(writeRec{Class: so, Kind: "subrange", Ref: x.L[0], Idx: x.L[1], Sub: x.L[2], SubHi: bvadd(x.L[2], x.L[3])})
			mid := f.c.define("smid", midSort(so), sel(h, x.L[0]))
			inner := f.c.define("sinner", innerSort(so), sel(mid, x.L[1]))
			ninner := f.c.lambda(so, "(ite "+inRange("k!l", x.L[2], bvadd(x.L[2], x.L[3]))+" (select "+inner+" "+f.ixadd(x.L[2], "("+perm+" (bvsub k!l "+x.L[2]+"))")+") (select "+inner+" k!l))")
			setHeap(st, so, f.c.define("H"+className(so), heapSort(so), sto(h, x.L[0], sto(mid, x.L[1], ninner))))
		} else {
			for _, so := range f.l.classesOf(et) {
				h := f.heap(st, so)
				f.noteWrite(writeRec{Class: so, Kind: "idxrange", Ref: x.L[0], Idx: x.L[1], IdxHi: bvadd(x.L[1], x.L[3])})
				mid := f.c.define("smid", midSort(so), sel(h, x.L[0]))
				nmid := f.c.lambda(innerSort(so), "(ite "+inRange("k!l", x.L[1], bvadd(x.L[1], x.L[3]))+" (select "+mid+" "+f.ixadd(x.L[1], "("+perm+" (bvsub k!l "+x.L[1]+"))")+") (select "+mid+" k!l))")
				setHeap(st, so, f.c.define("H"+className(so), heapSort(so), sto(h, x.L[0], nmid)))
			}
		}
		f.c.trusted["intrinsic "+name+" (permutes the elements of its slice argument in place; the comparison callback is assumed effect-free)"] = true
		return true
	case "math/bits.TrailingZeros32":
		return set(tzTerm(args[0].L[0], 32))
	case "math/bits.TrailingZeros16":
		return set(tzTerm(args[0].L[0], 16))
	case "math/bits.TrailingZeros64":
		return set(tzTerm(args[0].L[0], 64))
	case "math/bits.TrailingZeros8":
		return set(tzTerm(args[0].L[0], 8))
	case "math/bits.OnesCount16", "math/bits.OnesCount32", "math/bits.OnesCount8", "math/bits.OnesCount64":
		w := intWidth(args[0].T)
		t := bv64(0)
		for i := 0; i < w; i++ {
			t = "(bvadd " + t + " " + fmt.Sprintf("((_ zero_extend 63) ((_ extract %d %d) %s))", i, i, args[0].L[0]) + ")"
		}
		return set(t)
	case "math/bits.Len32", "math/bits.Len16", "math/bits.Len64", "math/bits.Len8":
		w := intWidth(args[0].T)
		t := bv64(0)
		for i := 0; i < w; i++ {
			t = ite(eq(fmt.Sprintf("((_ extract %d %d) %s)", i, i, args[0].L[0]), "#b1"), bv64(int64(i+1)), t)
		}
		return set(t)
	case "math/bits.Add64":
		x, y, c := args[0].L[0], args[1].L[0], args[2].L[0]
		wide := "(bvadd (bvadd ((_ zero_extend 64) " + x + ") ((_ zero_extend 64) " + y + ")) ((_ zero_extend 64) " + c + "))"
		w := f.c.define("add64", bvSort(128), wide)
		return set("((_ extract 63 0) "+w+")", "((_ extract 127 64) "+w+")")
	case "math/bits.Mul64":
		x, y := args[0].L[0], args[1].L[0]
		w := f.c.define("mul64", bvSort(128), "(bvmul ((_ zero_extend 64) "+x+") ((_ zero_extend 64) "+y+"))")
		return set("((_ extract 127 64) "+w+")", "((_ extract 63 0) "+w+")")
	case "math/bits.Div64":
		hi, lo, y := args[0].L[0], args[1].L[0], args[2].L[0]
		f.safety("div64", R, and(not(eq(y, bv64(0))), "(bvult "+hi+" "+y+")"), pos)
		n := "(concat " + hi + " " + lo + ")"
		d := "((_ zero_extend 64) " + y + ")"
		q := f.c.define("div64q", bvSort(128), "(bvudiv "+n+" "+d+")")
		r := f.c.define("div64r", bvSort(128), "(bvurem "+n+" "+d+")")
		return set("((_ extract 63 0) "+q+")", "((_ extract 63 0) "+r+")")
	case "sync/atomic.LoadUint32", "sync/atomic.LoadUint64", "sync/atomic.LoadInt32", "sync/atomic.LoadInt64":
		f.nilCheck(R, args[0], pos)
		v := f.load(st, derefType(args[0].T), ptrAddr(args[0]))
		f.c.notes["atomic load/store modelled as plain access (sequential semantics)"] = true
		return set(v.L...)
	case "sync/atomic.StoreUint32", "sync/atomic.StoreUint64", "sync/atomic.StoreInt32", "sync/atomic.StoreInt64":
		f.nilCheck(R, args[0], pos)
		f.store(st, ptrAddr(args[0]), Val{T: derefType(args[0].T), L: args[1].L})
		f.c.notes["atomic load/store modelled as plain access (sequential semantics)"] = true
		return true
	case "sync/atomic.AddUint32", "sync/atomic.AddUint64", "sync/atomic.AddInt32", "sync/atomic.AddInt64":
		f.nilCheck(R, args[0], pos)
		t := derefType(args[0].T)
		v := f.load(st, t, ptrAddr(args[0]))
		nv := f.c.define("atomicadd", bvSort(intWidth(t)), "(bvadd "+v.L[0]+" "+args[1].L[0]+")")
		f.store(st, ptrAddr(args[0]), Val{T: t, L: []string{nv}})
		return set(nv)
	}
	_ = types.Typ
	return false
}
