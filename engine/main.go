package main

import (
	"encoding/json"
	"flag"
	"fmt"
	"os"
	"runtime"
	"sort"
	"strings"

	"golang.org/x/tools/go/ssa"
)

func main() {
	if len(os.Args) < 2 {
		fmt.Fprintln(os.Stderr, "usage: gvc fn|check|list ...")
		os.Exit(2)
	}
	switch os.Args[1] {
	case "fn":
		cmdFn(os.Args[2:])
	case "check":
		cmdCheck(os.Args[2:])
	case "calls":
		cmdCalls(os.Args[2:])
	case "sweep":
		cmdSweep(os.Args[2:])
	default:
		fmt.Fprintln(os.Stderr, "unknown command", os.Args[1])
		os.Exit(2)
	}
}

func tmpDir() string {
	d, err := os.MkdirTemp("", "gvc")
	if err != nil {
		panic(err)
	}
	return d
}

// cmdFn: development command — verify the named functions and print every
// obligation.
func cmdFn(args []string) {
	fs := flag.NewFlagSet("fn", flag.ExitOnError)
	repo := fs.String("repo", "/repo", "repository")
	verif := fs.String("verif", "/verif", "verif directory")
	pkgs := fs.String("pkgs", "./packetmap", "package patterns (comma separated)")
	timeout := fs.Int("timeout", 40, "per-obligation timeout (s)")
	dump := fs.String("dump", "", "dump the query of the obligation with this name")
	only := fs.String("only", "", "only obligations containing this substring")
	verbose := fs.Bool("v", false, "verbose")
	fs.BoolVar(&explainNoQuant, "whynq", false, "with -why: leave quantified assumptions out (to get a candidate model)")
	trace := fs.Bool("calls", false, "print call ordinals while encoding")
	why := fs.String("why", "", "print a model for the named failing obligation")
	watch := fs.String("watch", "", "spec expressions (separated by ;) to evaluate in the model (-why)")
	fs.Parse(args)
	e, err := load(*repo, *verif, strings.Split(*pkgs, ","))
	if err != nil {
		fmt.Fprintln(os.Stderr, "ERROR", err)
		os.Exit(2)
	}
	if b, err := os.ReadFile(*verif + "/solver_hints.json"); err == nil {
		json.Unmarshal(b, &solverHints)
	}
	e.traceCalls = *trace
	if *watch != "" {
		for _, w := range strings.Split(*watch, ";") {
			e.watch = append(e.watch, strings.TrimSpace(w))
		}
	}
	var frs []*FnResult
	want := fs.Args()
	var keys []string
	for k := range e.contracts {
		keys = append(keys, k)
	}
	sort.Strings(keys)
	for _, k := range keys {
		c := e.contracts[k]
		if c.Trusted || c.Pkg == "" {
			continue
		}
		if len(want) > 0 && !matchAny(k, want) {
			continue
		}
		fn := e.fnByKey[k]
		fr := e.encodeFunction(fn, c)
		frs = append(frs, fr)
		if fr.Err != nil {
			fmt.Println("ENCODE-ERROR", fr.Err)
		}
	}
	for _, lm := range e.lemmas {
		if len(want) > 0 && !matchAny("lemma:"+lm.Name, want) {
			continue
		}
		fr := e.encodeLemma(lm)
		frs = append(frs, fr)
		if fr.Err != nil {
			fmt.Println("ENCODE-ERROR", fr.Err)
		}
	}
	if *why != "" {
		for _, fr := range frs {
			if fr.Err != nil {
				continue
			}
			for i, it := range fr.Ctx.items {
				if it.Kind == ItOblig && it.Name == *why {
					fmt.Println(explain(fr.Ctx, i))
					return
				}
			}
		}
		fmt.Fprintln(os.Stderr, "no such obligation")
		os.Exit(2)
	}
	if *dump != "" {
		for _, fr := range frs {
			if fr.Err != nil {
				continue
			}
			for i, it := range fr.Ctx.items {
				if it.Kind == ItOblig && it.Name == *dump {
					fmt.Print(buildQuery(fr.Ctx, i, true, false))
					fmt.Println("(get-model)")
					return
				}
			}
		}
		fmt.Fprintln(os.Stderr, "no such obligation")
		os.Exit(2)
	}
	tmp := tmpDir()
	defer os.RemoveAll(tmp)
	var filter func(string) bool
	if *only != "" {
		filter = func(n string) bool { return strings.Contains(n, *only) }
	}
	res := dischargeAll(frs, filter, runtime.NumCPU(), *timeout, tmp)
	bad := 0
	for _, r := range res {
		ok := r.Status == "proved" || r.Status == "sat-ok"
		if !ok {
			bad++
		}
		if !ok || *verbose {
			fmt.Printf("%-8s %-70s %6.2fs %-10s %s  -- %s\n", r.Status, r.Name, r.Seconds, r.Solver, r.Pos, truncate(r.Text, 80))
			if !ok && *verbose {
				fmt.Println("    " + strings.ReplaceAll(r.Output, "\n", "\n    "))
			}
		}
	}
	fmt.Printf("%d obligations, %d not discharged\n", len(res), bad)
	for _, fr := range frs {
		if fr.Err == nil && *verbose {
			for _, n := range sortedKeys(fr.Ctx.notes) {
				fmt.Println("  note:", fr.Key, n)
			}
		}
	}
}

func matchAny(k string, pats []string) bool {
	for _, p := range pats {
		if strings.Contains(k, p) {
			return true
		}
	}
	return false
}

// cmdCalls lists the callees of the named functions (development aid).
func cmdCalls(args []string) {
	e, err := load("/repo", "/verif", strings.Split(args[0], ","))
	if err != nil {
		fmt.Println(err)
		os.Exit(2)
	}
	seen := map[string]int{}
	for k, fn := range e.fnByKey {
		if !matchAny(k, args[1:]) || len(fn.Blocks) == 0 {
			continue
		}
		for _, b := range fn.Blocks {
			for _, in := range b.Instrs {
				if c, ok := in.(ssa.CallInstruction); ok {
					cc := c.Common()
					name := ""
					if cc.IsInvoke() {
						name = "iface " + ifaceKey(cc)
					} else if sf := cc.StaticCallee(); sf != nil {
						name = e.fnKey(sf)
					} else {
						name = "dynamic"
					}
					if e.contracts[name] == nil && e.ifaces[strings.TrimPrefix(name, "iface ")] == nil {
						seen[name]++
					}
				}
			}
		}
	}
	var ks []string
	for k := range seen {
		ks = append(ks, k)
	}
	sort.Strings(ks)
	for _, k := range ks {
		fmt.Printf("%4d %s\n", seen[k], k)
	}
}
