package main

// Type layout: every Go type is flattened into a vector of leaf cells.
// A leaf has an SMT sort; the heap of that sort holds it (DESIGN 2.4).

import (
	"fmt"
	"go/types"
)

type unsupported struct{ msg string }

func (u unsupported) Error() string { return "unsupported: " + u.msg }

func unsupp(format string, args ...any) {
	panic(unsupported{fmt.Sprintf(format, args...)})
}

type ghostField struct {
	Name string
	T    types.Type
}

type fieldInfo struct {
	Name  string
	T     types.Type
	Off   int // leaf offset within the struct
	Ghost bool
}

const maxValueLeaves = 4096

// Layout caches per-type information.
type Layout struct {
	ghost  map[string][]ghostField // key: types.TypeString of the named struct
	ncells map[types.Type]int
	fields map[types.Type][]fieldInfo
}

func newLayout() *Layout {
	return &Layout{ghost: map[string][]ghostField{}, ncells: map[types.Type]int{}, fields: map[types.Type][]fieldInfo{}}
}

func basicSort(b *types.Basic) string {
	switch b.Kind() {
	case types.Bool, types.UntypedBool:
		return SBool
	case types.Int8, types.Uint8:
		return SBV8
	case types.Int16, types.Uint16:
		return SBV16
	case types.Int32, types.Uint32, types.UntypedRune:
		return SBV32
	case types.Int, types.Uint, types.Int64, types.Uint64, types.Uintptr, types.UntypedInt:
		return SBV64
	case types.Float32:
		return SBV32
	case types.Float64, types.UntypedFloat:
		return SBV64
	case types.String, types.UntypedString:
		return SStr
	case types.UnsafePointer:
		unsupp("unsafe.Pointer")
	case types.UntypedNil:
		return SInt
	}
	unsupp("basic type %s", b)
	return ""
}

func isSigned(t types.Type) bool {
	if b, ok := t.Underlying().(*types.Basic); ok {
		return b.Info()&types.IsUnsigned == 0 && b.Info()&types.IsInteger != 0
	}
	return false
}

func isInteger(t types.Type) bool {
	if b, ok := t.Underlying().(*types.Basic); ok {
		return b.Info()&types.IsInteger != 0
	}
	return false
}

func isFloat(t types.Type) bool {
	if b, ok := t.Underlying().(*types.Basic); ok {
		return b.Info()&types.IsFloat != 0
	}
	return false
}

func isString(t types.Type) bool {
	if b, ok := t.Underlying().(*types.Basic); ok {
		return b.Info()&types.IsString != 0
	}
	return false
}

func isBool(t types.Type) bool {
	if b, ok := t.Underlying().(*types.Basic); ok {
		return b.Info()&types.IsBoolean != 0
	}
	return false
}

func intWidth(t types.Type) int {
	return sortWidth(basicSort(t.Underlying().(*types.Basic)))
}

// structFields returns the fields of a struct type including ghost fields
// declared for the named type nt (may be nil).
func (l *Layout) structFields(t types.Type) []fieldInfo {
	if f, ok := l.fields[t]; ok {
		return f
	}
	st := t.Underlying().(*types.Struct)
	var out []fieldInfo
	off := 0
	for i := 0; i < st.NumFields(); i++ {
		f := st.Field(i)
		if l.idxArray(f.Type()) {
			// arrays of multi-cell elements nested in another object
			// would need multiplication in addresses; only a top-level
			// object of such a type is supported (laid out along idx).
			unsupp("array of multi-cell elements nested in struct %s", t)
		}
		out = append(out, fieldInfo{Name: f.Name(), T: f.Type(), Off: off})
		off += l.cells(f.Type())
	}
	if n, ok := t.(*types.Named); ok {
		for _, g := range l.ghost[typeKey(n)] {
			out = append(out, fieldInfo{Name: g.Name, T: g.T, Off: off, Ghost: true})
			off += l.cells(g.T)
		}
	}
	l.fields[t] = out
	return out
}

func typeKey(n *types.Named) string {
	o := n.Obj()
	if o.Pkg() == nil {
		return o.Name()
	}
	return o.Pkg().Path() + "." + o.Name()
}

// cells is the number of leaf cells a value of type t occupies.
func (l *Layout) cells(t types.Type) int {
	if n, ok := l.ncells[t]; ok {
		return n
	}
	n := l.cells0(t)
	l.ncells[t] = n
	return n
}

func (l *Layout) cells0(t types.Type) int {
	switch u := t.Underlying().(type) {
	case *types.Basic:
		if u.Kind() == types.Invalid {
			return 0 // unused component of a range/next tuple
		}
		basicSort(u)
		return 1
	case *types.Pointer:
		return 3
	case *types.Slice:
		return 5
	case *types.Map, *types.Chan:
		return 1
	case *types.Signature:
		return 1
	case *types.Interface:
		return 4
	case *types.Struct:
		fs := l.structFields(t)
		if len(fs) == 0 {
			return 0
		}
		last := fs[len(fs)-1]
		return last.Off + l.cells(last.T)
	case *types.Array:
		ec := l.cells(u.Elem())
		return int(u.Len()) * ec
	case *types.Tuple:
		n := 0
		for i := 0; i < u.Len(); i++ {
			n += l.cells(u.At(i).Type())
		}
		return n
	case *types.TypeParam:
		unsupp("type parameter %s", t)
	}
	unsupp("type %s", t)
	return 0
}

// idxArray reports whether t is an array whose elements occupy several
// cells; such an array is laid out along idx as a top-level object.
func (l *Layout) idxArray(t types.Type) bool {
	a, ok := t.Underlying().(*types.Array)
	return ok && l.cells(a.Elem()) != 1 && a.Len() > 1
}

func (l *Layout) oneCell(t types.Type) bool { return l.cells(t) == 1 }

// leafSorts flattens t into the sorts of its leaves.
func (l *Layout) leafSorts(t types.Type) []string {
	var out []string
	l.leafSortsInto(t, &out)
	return out
}

func (l *Layout) leafSortsInto(t types.Type, out *[]string) {
	if len(*out) > maxValueLeaves {
		unsupp("value of type %s too large to flatten", t)
	}
	switch u := t.Underlying().(type) {
	case *types.Basic:
		if u.Kind() != types.Invalid {
			*out = append(*out, basicSort(u))
		}
	case *types.Pointer:
		*out = append(*out, SInt, SBV64, SBV64)
	case *types.Slice:
		*out = append(*out, SInt, SBV64, SBV64, SBV64, SBV64)
	case *types.Map, *types.Chan, *types.Signature:
		*out = append(*out, SInt)
	case *types.Interface:
		*out = append(*out, SInt, SInt, SBV64, SBV64)
	case *types.Struct:
		for _, f := range l.structFields(t) {
			l.leafSortsInto(f.T, out)
		}
	case *types.Array:
		for i := int64(0); i < u.Len(); i++ {
			l.leafSortsInto(u.Elem(), out)
		}
	case *types.Tuple:
		for i := 0; i < u.Len(); i++ {
			l.leafSortsInto(u.At(i).Type(), out)
		}
	default:
		unsupp("type %s", t)
	}
}

// leafClasses returns the set of heap classes a value of type t occupies
// (without flattening big arrays).
func (l *Layout) leafClasses(t types.Type, seen map[types.Type]bool, out map[string]bool) {
	if seen[t] {
		return
	}
	seen[t] = true
	switch u := t.Underlying().(type) {
	case *types.Basic:
		out[basicSort(u)] = true
	case *types.Pointer, *types.Slice:
		out[SInt] = true
		out[SBV64] = true
	case *types.Map, *types.Chan, *types.Signature:
		out[SInt] = true
	case *types.Interface:
		out[SInt] = true
		out[SBV64] = true
	case *types.Struct:
		for _, f := range l.structFields(t) {
			l.leafClasses(f.T, seen, out)
		}
	case *types.Array:
		l.leafClasses(u.Elem(), seen, out)
	case *types.Tuple:
		for i := 0; i < u.Len(); i++ {
			l.leafClasses(u.At(i).Type(), seen, out)
		}
	}
}

func (l *Layout) classesOf(t types.Type) []string {
	m := map[string]bool{}
	l.leafClasses(t, map[types.Type]bool{}, m)
	var out []string
	for _, c := range allClasses {
		if m[c] {
			out = append(out, c)
		}
	}
	return out
}

func derefType(t types.Type) types.Type {
	if p, ok := t.Underlying().(*types.Pointer); ok {
		return p.Elem()
	}
	return nil
}
