package main

import (
	"bytes"
	"context"
	"fmt"
	"os"
	"os/exec"
	"path/filepath"
	"strconv"
	"strings"
	"sync"
	"time"
)

type ObResult struct {
	Fn       string
	Name     string
	Class    string
	Status   string // proved, failed, unknown, sat-ok (canary/cover met), vacuous
	Solver   string
	Seconds  float64
	Pos      string
	Text     string
	Model    string
	Output   string
	QueryLen int
	item     *Item
	ctx      *Ctx
	idx      int
}

// buildQuery renders the SMT-LIB text for obligation i of ctx.
func buildQuery(c *Ctx, i int, wantModel bool, forCVC5 bool) string {
	return buildQueryOpt(c, i, wantModel, forCVC5, false)
}

func isQuantified(f string) bool {
	return strings.Contains(f, "(forall ") || strings.Contains(f, "(exists ")
}

// buildQueryOpt: with noQuant the quantified assumptions are left out (a
// weaker context: unsat still proves the obligation, anything else is
// inconclusive).
func buildQueryOpt(c *Ctx, i int, wantModel bool, forCVC5 bool, noQuant bool) string {
	it := c.items[i]
	var b strings.Builder
	if wantModel {
		b.WriteString("(set-option :produce-models true)\n")
	}
	b.WriteString("(set-logic ALL)\n")
	for k, d := range c.decls[:it.DeclPos] {
		if strings.HasPrefix(d, "LAMBDA\t") || strings.HasPrefix(d, "LAMBDAR\t") {
			d = expandLambdaDecl(d, forCVC5)
		}
		if strings.HasPrefix(d, "SOLVERDEF\t") {
			parts := strings.SplitN(d, "\t", 3)
			d = parts[1]
			if forCVC5 {
				d = parts[2]
			}
		}
		b.WriteString(d)
		b.WriteByte('\n')
		if k == 5 {
			// string literal declarations right after the Str prelude
			for _, l := range c.strLitDecls() {
				b.WriteString(l)
				b.WriteByte('\n')
			}
		}
	}
	rel := c.relevantGuards(it.Guard)
	var slice map[int]bool
	if noQuant {
		slice = c.coneOfInfluence(i, rel)
	}
	for j := 0; j < i; j++ {
		p := c.items[j]
		if p.Kind == ItOblig && p.Expect == "sat" {
			continue
		}
		if !guardRelevant(c, rel, p.Guard) {
			// guarded by a block that is not on any path to this
			// obligation: vacuous here, dropped (always sound)
			continue
		}
		if p.Kind == ItOblig {
			// earlier obligations are assumed only when they are cheap
			// path facts (quantifier-free safety / call-site conditions)
			switch p.Class {
			case "assert":
				// explicit proof steps are assumed once stated, quantified or not
			case "safe", "requires", "guarded":
				if strings.Contains(p.Formula, "(forall ") || strings.Contains(p.Formula, "(exists ") {
					continue
				}
			default:
				continue
			}
		}
		if noQuant && (isQuantified(p.Formula) || (slice != nil && !slice[j])) {
			continue
		}
		b.WriteString("(assert " + implies(p.Guard, p.Formula) + ")\n")
	}
	for _, h := range it.Hyps {
		b.WriteString("(assert " + implies(it.Guard, h) + ")\n")
	}
	b.WriteString("(assert " + and(it.Guard, not(it.Formula)) + ")\n")
	b.WriteString("(check-sat)\n")
	return b.String()
}

type solverSpec struct {
	name string
	cmd  func(file string, timeout int) []string
}

var solvers = []solverSpec{
	{"z3-5.1.0", func(f string, t int) []string { return []string{"z3-new", fmt.Sprintf("-T:%d", t), f} }},
	{"z3-4.8.12", func(f string, t int) []string { return []string{"z3", fmt.Sprintf("-T:%d", t), f} }},
	{"cvc5-1.0", func(f string, t int) []string { return []string{"cvc5", fmt.Sprintf("--tlimit=%d", t*1000), f} }},
}

func runSolver(s solverSpec, file string, timeout int) (string, string, float64) {
	ctx, cancel := context.WithTimeout(context.Background(), time.Duration(timeout+5)*time.Second)
	defer cancel()
	args := s.cmd(file, timeout)
	cmd := exec.CommandContext(ctx, args[0], args[1:]...)
	var out bytes.Buffer
	cmd.Stdout = &out
	cmd.Stderr = &out
	t0 := time.Now()
	cmd.Run()
	dt := time.Since(t0).Seconds()
	text := out.String()
	first := strings.TrimSpace(strings.SplitN(text, "\n", 2)[0])
	switch first {
	case "sat", "unsat", "unknown":
		return first, text, dt
	}
	if strings.Contains(text, "timeout") || ctx.Err() != nil {
		return "timeout", text, dt
	}
	return "error", text, dt
}

var raceSem = make(chan struct{}, 5)

// solverHints: obligation (stable name) -> back end that decided it last time.
var solverHints = map[string]string{}

type solverAns struct {
	name, res, out string
	dt             float64
}

// race runs the solvers concurrently on one query file; the first definite
// answer (sat/unsat) wins and the others are killed.
func race(file, cvcFile string, timeout int) (solverAns, []solverAns) {
	ctx, cancel := context.WithTimeout(context.Background(), time.Duration(timeout+5)*time.Second)
	defer cancel()
	ch := make(chan solverAns, len(solvers))
	n := 0
	for _, s := range solvers {
		n++
		go func(s solverSpec) {
			qf := file
			if strings.HasPrefix(s.name, "cvc5") {
				qf = cvcFile
			}
			args := s.cmd(qf, timeout)
			cmd := exec.CommandContext(ctx, args[0], args[1:]...)
			var out bytes.Buffer
			cmd.Stdout = &out
			cmd.Stderr = &out
			t0 := time.Now()
			cmd.Run()
			dt := time.Since(t0).Seconds()
			text := out.String()
			first := strings.TrimSpace(strings.SplitN(text, "\n", 2)[0])
			switch first {
			case "sat", "unsat", "unknown":
			default:
				if strings.Contains(text, "timeout") || ctx.Err() != nil {
					first = "timeout"
				} else {
					first = "error"
				}
			}
			ch <- solverAns{s.name, first, text, dt}
		}(s)
	}
	var all []solverAns
	for k := 0; k < n; k++ {
		a := <-ch
		all = append(all, a)
		if a.res == "sat" || a.res == "unsat" {
			cancel()
			return a, all
		}
	}
	return solverAns{res: "unknown"}, all
}

// discharge runs one obligation through the portfolio.
func discharge(c *Ctx, i int, fnKey string, tmp string, timeout int) ObResult {
	it := &c.items[i]
	if it.Expect == "sat" {
		// vacuity probes: one quick look with the default solver is enough
		r0 := ObResult{Fn: fnKey, Name: it.Name, Class: it.Class, Pos: fmt.Sprintf("%s:%d", it.Pos.Filename, it.Pos.Line), Text: it.Text, item: it, ctx: c, idx: i}
		q0 := buildQueryOpt(c, i, false, false, true) // quantified assumptions left out: sat of the rest is what the probe looks for
		f0 := filepath.Join(tmp, fmt.Sprintf("q_%p_%d_v.smt2", c, i))
		os.WriteFile(f0, []byte(q0), 0o644)
		probe := 3
		if v, err := strconv.Atoi(os.Getenv("GVC_CANARY_SECS")); err == nil && v > 0 {
			probe = v // (tools/deadreturns.sh: a long look for returns that are dead under the contracts)
		}
		res0, out0, dt0 := runSolver(solvers[0], f0, probe)
		os.Remove(f0)
		r0.Seconds = dt0
		r0.QueryLen = len(q0)
		r0.Solver = solvers[0].name
		r0.Output = fmt.Sprintf("[%s] %s (%.2fs)", solvers[0].name, strings.TrimSpace(truncate(out0, 100)), dt0)
		switch res0 {
		case "sat":
			r0.Status = "sat-ok"
		case "unsat":
			r0.Status = "vacuous"
		default:
			r0.Status = "unknown"
		}
		return r0
	}
	r := ObResult{Fn: fnKey, Name: it.Name, Class: it.Class, Pos: fmt.Sprintf("%s:%d", it.Pos.Filename, it.Pos.Line), Text: it.Text, item: it, ctx: c, idx: i}
	q := buildQuery(c, i, false, false)
	r.QueryLen = len(q)
	file := filepath.Join(tmp, fmt.Sprintf("q_%p_%d.smt2", c, i))
	os.WriteFile(file, []byte(q), 0o644)
	defer os.Remove(file)
	hasLambda := strings.Contains(q, "(lambda ")
	cvcFile := file
	if hasLambda || strings.Contains(q, "bvumul_noovfl") {
		cvcFile = filepath.Join(tmp, fmt.Sprintf("q_%p_%d_cvc5.smt2", c, i))
		os.WriteFile(cvcFile, []byte(buildQuery(c, i, false, true)), 0o644)
		defer os.Remove(cvcFile)
	}
	// first a short run of the default solver alone (most obligations are
	// trivial); then the full race
	var win solverAns
	var all []solverAns
	first := 8
	if timeout < first {
		first = timeout
	}
	// solver hints (speed only): an obligation that another back end
	// decided last time goes to that back end first
	if h := solverHints[stableName(it.Name)]; h != "" && h != solvers[0].name {
		for _, sv := range solvers {
			if sv.name != h {
				continue
			}
			qf := file
			if strings.HasPrefix(sv.name, "cvc5") {
				qf = cvcFile
			}
			resH, outH, dtH := runSolver(sv, qf, timeout)
			r.Seconds += dtH
			if resH == "unsat" || resH == "sat" {
				r.Solver = sv.name
				r.Output = fmt.Sprintf("[%s, hinted] %s (%.2fs)", sv.name, strings.TrimSpace(truncate(outH, 100)), dtH)
				switch {
				case resH == "unsat" && it.Expect == "sat":
					r.Status = "vacuous"
				case resH == "unsat":
					r.Status = "proved"
				case it.Expect == "sat":
					r.Status = "sat-ok"
				default:
					r.Status = "failed"
				}
				return r
			}
		}
	}
	// stage A: without the quantified assumptions (most obligations do not
	// need them and they slow every solver down); only unsat is conclusive
	if it.Expect != "sat" && !isQuantified(it.Formula) {
		qa := buildQueryOpt(c, i, false, false, true)
		if len(qa) != len(q) {
			fa := filepath.Join(tmp, fmt.Sprintf("q_%p_%d_a.smt2", c, i))
			os.WriteFile(fa, []byte(qa), 0o644)
			resA, outA, dtA := runSolver(solvers[0], fa, 4)
			os.Remove(fa)
			r.Seconds += dtA
			if resA == "unsat" {
				r.Solver = solvers[0].name
				r.Status = "proved"
				r.Output = fmt.Sprintf("[%s, quantified assumptions left out] %s (%.2fs)", solvers[0].name, strings.TrimSpace(truncate(outA, 100)), dtA)
				return r
			}
		}
	}
	res, out, dt := runSolver(solvers[0], file, first)
	if res == "sat" || res == "unsat" {
		win = solverAns{solvers[0].name, res, out, dt}
		all = []solverAns{win}
	} else {
		r.Seconds += dt
		// at most a few portfolio races at a time, so that each solver gets
		// a whole core and timings stay stable
		raceSem <- struct{}{}
		win, all = race(file, cvcFile, timeout)
		<-raceSem
	}
	var outputs []string
	for _, a := range all {
		outputs = append(outputs, fmt.Sprintf("[%s] %s (%.2fs)", a.name, strings.TrimSpace(truncate(a.out, 300)), a.dt))
	}
	r.Output = strings.Join(outputs, "\n")
	r.Seconds += win.dt
	want := it.Expect
	switch win.res {
	case "unsat":
		r.Solver = win.name
		if want == "sat" {
			r.Status = "vacuous"
		} else {
			r.Status = "proved"
		}
	case "sat":
		r.Solver = win.name
		if want == "sat" {
			r.Status = "sat-ok"
		} else {
			r.Status = "failed"
		}
	default:
		r.Status = "unknown"
		for _, a := range all {
			if a.dt > r.Seconds {
				r.Seconds = a.dt
			}
		}
	}
	return r
}

// dischargeAll runs all obligations of the results in parallel.
func dischargeAll(frs []*FnResult, filter func(name string) bool, workers, timeout int, tmp string) []ObResult {
	type job struct {
		c   *Ctx
		i   int
		key string
	}
	var jobs []job
	for _, fr := range frs {
		if fr.Err != nil {
			continue
		}
		for i, it := range fr.Ctx.items {
			if it.Kind != ItOblig {
				continue
			}
			if filter != nil && !filter(it.Name) {
				continue
			}
			jobs = append(jobs, job{fr.Ctx, i, fr.Key})
		}
	}
	out := make([]ObResult, len(jobs))
	var wg sync.WaitGroup
	ch := make(chan int)
	for w := 0; w < workers; w++ {
		wg.Add(1)
		go func() {
			defer wg.Done()
			for k := range ch {
				j := jobs[k]
				out[k] = discharge(j.c, j.i, j.key, tmp, timeout)
			}
		}()
	}
	for k := range jobs {
		ch <- k
	}
	close(ch)
	wg.Wait()
	return out
}

// explain runs the query of obligation i with model production and prints
// the values of the watch terms.
var explainNoQuant bool

func explain(c *Ctx, i int) string {
	it := c.items[i]
	q := buildQuery(c, i, true, false)
	if explainNoQuant {
		q = buildQueryOpt(c, i, true, false, true)
	}
	var terms []string
	for _, w := range it.Watch {
		terms = append(terms, w.Terms...)
	}
	if len(terms) > 0 {
		q += "(get-value (" + strings.Join(terms, " ") + "))\n"
	}
	tmp := tmpDir()
	defer os.RemoveAll(tmp)
	file := filepath.Join(tmp, "why.smt2")
	os.WriteFile(file, []byte(q), 0o644)
	out, _ := exec.Command("z3-new", "-T:20", file).CombinedOutput()
	text := string(out)
	if !strings.HasPrefix(text, "sat") && !strings.HasPrefix(text, "unsat") {
		// second opinion (z3 4.8 finds models for array-heavy queries z3 5 gives up on)
		if out2, _ := exec.Command("z3", "-T:20", file).CombinedOutput(); strings.HasPrefix(string(out2), "sat") {
			text = string(out2)
		}
	}
	vals := parseGetValue(text)
	var b strings.Builder
	b.WriteString(strings.SplitN(text, "\n", 2)[0] + "\n")
	for _, w := range it.Watch {
		var vs []string
		for _, t := range w.Terms {
			vs = append(vs, vals[t])
		}
		fmt.Fprintf(&b, "  %-40s = %s\n", w.Text, strings.Join(vs, " "))
	}
	return b.String()
}

// parseGetValue parses "((t v) (t v) ...)" into a map.
func parseGetValue(text string) map[string]string {
	out := map[string]string{}
	i := strings.Index(text, "((")
	if i < 0 {
		return out
	}
	s := text[i+1:]
	for len(s) > 0 && s[0] != ')' {
		s = strings.TrimLeft(s, " \n\t")
		if len(s) == 0 || s[0] != '(' {
			break
		}
		j := matchParen(s, 0)
		if j < 0 {
			break
		}
		pair := s[1:j]
		// term is either atom or parenthesised
		var term, val string
		if pair[0] == '(' {
			k := matchParen(pair, 0)
			term, val = pair[:k+1], strings.TrimSpace(pair[k+1:])
		} else {
			k := strings.IndexAny(pair, " \n")
			term, val = pair[:k], strings.TrimSpace(pair[k+1:])
		}
		out[term] = prettyVal(val)
		s = s[j+1:]
	}
	return out
}

func prettyVal(v string) string {
	if strings.HasPrefix(v, "#x") {
		var n uint64
		fmt.Sscanf(v[2:], "%x", &n)
		return fmt.Sprintf("%d(0x%x)", n, n)
	}
	if strings.HasPrefix(v, "#b") {
		var n uint64
		for _, ch := range v[2:] {
			n = n*2 + uint64(ch-'0')
		}
		return fmt.Sprint(n)
	}
	return v
}

// boolDefs indexes the Bool-sorted definitions (reachability variables and
// edge conditions) by name.
func (c *Ctx) boolDefIndex() map[string]string {
	if c.boolDefs != nil && c.boolDefsN == len(c.decls) {
		return c.boolDefs
	}
	m := map[string]string{}
	for _, d := range c.decls {
		if !strings.HasPrefix(d, "(define-fun ") {
			continue
		}
		rest := d[len("(define-fun "):]
		sp := strings.Index(rest, " ")
		name := rest[:sp]
		rest = rest[sp+1:]
		if !strings.HasPrefix(rest, "() Bool ") {
			continue
		}
		m[name] = rest[len("() Bool ") : len(rest)-1]
	}
	c.boolDefs, c.boolDefsN = m, len(c.decls)
	return m
}

func identTokens(t string) []string {
	var out []string
	start := -1
	for i := 0; i <= len(t); i++ {
		if i < len(t) && t[i] != ' ' && t[i] != '(' && t[i] != ')' {
			if start < 0 {
				start = i
			}
			continue
		}
		if start >= 0 {
			out = append(out, t[start:i])
			start = -1
		}
	}
	return out
}

// relevantGuards is the set of Bool definitions the guard transitively
// depends on (the reachability variables of all blocks on paths to it).
func (c *Ctx) relevantGuards(guard string) map[string]bool {
	defs := c.boolDefIndex()
	seen := map[string]bool{}
	var walk func(t string)
	walk = func(t string) {
		for _, id := range identTokens(t) {
			if body, ok := defs[id]; ok && !seen[id] {
				seen[id] = true
				walk(body)
			}
		}
	}
	walk(guard)
	return seen
}

func guardRelevant(c *Ctx, rel map[string]bool, guard string) bool {
	if guard == "true" || guard == "" {
		return true
	}
	defs := c.boolDefIndex()
	for _, id := range identTokens(guard) {
		if _, isDef := defs[id]; isDef && !rel[id] {
			return false
		}
	}
	return true
}

// ---------------------------------------------------------------- slicing

func ubiquitous(sym string) bool {
	for _, p := range []string{"H0", "Hhv", "alloc", "objtype", "str_empty", "slen", "sbyte", "ix", "glob!", "strlit!", "fn!"} {
		if strings.HasPrefix(sym, p) {
			return true
		}
	}
	return false
}

// symIndex maps every declared or defined name to the set of declared
// (base) symbols it depends on.
func (c *Ctx) symIndex() map[string]map[string]bool {
	if c.syms != nil && c.symsN == len(c.decls) {
		return c.syms
	}
	idx := map[string]map[string]bool{}
	for _, d := range c.decls {
		switch {
		case strings.HasPrefix(d, "(declare-const "), strings.HasPrefix(d, "(declare-fun "):
			rest := d[strings.Index(d, " ")+1:]
			name := rest[:strings.IndexAny(rest, " )")]
			idx[name] = map[string]bool{name: true}
		case strings.HasPrefix(d, "(define-fun "):
			rest := d[len("(define-fun "):]
			sp := strings.Index(rest, " ")
			name := rest[:sp]
			set := map[string]bool{}
			for _, t := range identTokens(rest[sp:]) {
				for b := range idx[t] {
					set[b] = true
				}
			}
			idx[name] = set
		case strings.HasPrefix(d, "LAMBDA\t"), strings.HasPrefix(d, "LAMBDAR\t"):
			parts := strings.SplitN(d, "\t", 4)
			set := map[string]bool{}
			for _, t := range identTokens(parts[3]) {
				for b := range idx[t] {
					set[b] = true
				}
			}
			idx[parts[1]] = set
		}
	}
	c.syms, c.symsN = idx, len(c.decls)
	return idx
}

func (c *Ctx) symsOf(term string) map[string]bool {
	idx := c.symIndex()
	out := map[string]bool{}
	for _, t := range identTokens(term) {
		for b := range idx[t] {
			if !ubiquitous(b) {
				out[b] = true
			}
		}
	}
	return out
}

// coneOfInfluence selects the earlier assumptions that share (transitively)
// a non-ubiquitous symbol with obligation i.  Leaving the others out only
// weakens the context.
func (c *Ctx) coneOfInfluence(i int, rel map[string]bool) map[int]bool {
	it := c.items[i]
	cur := c.symsOf(it.Formula)
	for _, h := range it.Hyps {
		for s := range c.symsOf(h) {
			cur[s] = true
		}
	}
	type cand struct {
		j    int
		syms map[string]bool
	}
	var cands []cand
	for j := 0; j < i; j++ {
		p := c.items[j]
		if p.Kind == ItOblig && p.Expect == "sat" {
			continue
		}
		if !guardRelevant(c, rel, p.Guard) {
			continue
		}
		cands = append(cands, cand{j, c.symsOf(p.Formula)})
	}
	keep := map[int]bool{}
	for changed := true; changed; {
		changed = false
		for _, cd := range cands {
			if keep[cd.j] {
				continue
			}
			hit := len(cd.syms) == 0
			for s := range cd.syms {
				if cur[s] {
					hit = true
					break
				}
			}
			if hit {
				keep[cd.j] = true
				changed = true
				for s := range cd.syms {
					cur[s] = true
				}
			}
		}
	}
	return keep
}
