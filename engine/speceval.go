package main

// Evaluation of spec expressions to symbolic values.

import (
	"fmt"
	"go/token"
	"go/types"
	"golang.org/x/tools/go/ssa"
	"math/big"
	"strconv"
	"strings"
)

type specErr struct {
	msg  string
	gone bool // the clause refers to a call the code no longer makes
}

func (e specErr) Error() string { return e.msg }

func sfail(format string, a ...any) { panic(specErr{msg: fmt.Sprintf(format, a...)}) }
func sgone(format string, a ...any) { panic(specErr{msg: fmt.Sprintf(format, a...), gone: true}) }

// SpecEnv is the context a spec expression is evaluated in.
type SpecEnv struct {
	f       *FnEnc
	pkg     *types.Package
	vars    map[string]Val // parameters, bound variables, locals
	oldVars map[string]Val // values of names inside old(...)
	cur     *State
	old     *State
	results []Val
	resName []string
	inOld   bool
	locals  func(name string, st *State) (Val, bool) // loop invariants: current local cells
	guard   string                                   // for wf assumptions on loads
	depth   int
	goal    bool             // evaluating a proof goal (not an assumption)
	neg     bool             // current position has negative polarity
	nopol   bool             // polarity unknown (under <==>, ?:, ==)
	qdepth  int              // nesting depth of quantifiers
	witness map[string]SExpr // witnesses for positive existentials in goals
	derefs  *[]string        // when set: the non-nil conditions of the pointers dereferenced during evaluation
	fr      *Frame           // the activation whose loops `visited` refers to
}

func (se *SpecEnv) noteDeref(nonnil string) {
	if se.derefs != nil && nonnil != "" && nonnil != "true" {
		*se.derefs = append(*se.derefs, nonnil)
	}
}

func (se *SpecEnv) state() *State {
	if se.inOld {
		return se.old
	}
	return se.cur
}

var untypedInt = types.Typ[types.UntypedInt]

const (
	tokSHL = token.SHL
	tokSHR = token.SHR
)

func (se *SpecEnv) evalBool(e SExpr) string {
	v := se.eval(e, types.Typ[types.Bool])
	if !isBool(v.T) {
		sfail("boolean expected, got %s", v.T)
	}
	return v.L[0]
}

func boolVal(t string) Val { return Val{T: types.Typ[types.Bool], L: []string{t}} }

// eval evaluates e; hint (may be nil) is the expected type, used to type
// untyped constants.
func (se *SpecEnv) eval(e SExpr, hint types.Type) Val {
	f := se.f
	switch e := e.(type) {
	case SLit:
		switch e.Kind {
		case "bool":
			return boolVal(e.Val)
		case "int":
			bi, ok := new(big.Int).SetString(e.Val, 0)
			if !ok {
				sfail("bad integer %s", e.Val)
			}
			t := hint
			if t == refType {
				// object references are mathematical integers in the encoding
				return Val{T: refType, L: []string{bi.String()}}
			}
			if t == nil || !isInteger(t) {
				t = types.Typ[types.Int]
			}
			if b, ok := t.Underlying().(*types.Basic); ok && b.Kind() == types.UntypedInt {
				t = types.Typ[types.Int]
			}
			return Val{T: t, L: []string{bvLit(bi, intWidth(t))}}
		case "string":
			return Val{T: types.Typ[types.String], L: []string{f.c.strLit(e.Val)}}
		case "nil":
			if hint == nil {
				sfail("nil needs a typed context")
			}
			return f.zero(hint)
		}
	case SIdent:
		if c := se.untypedConst(e.Name); c != nil {
			t := hint
			if t == nil || !isInteger(t) || t == untypedInt {
				t = types.Typ[types.Int]
			}
			bi, _ := new(big.Int).SetString(c.Val().ExactString(), 10)
			if bi != nil {
				return Val{T: t, L: []string{bvLit(bi, intWidth(t))}}
			}
		}
		return se.ident(e.Name)
	case SUnary:
		switch e.Op {
		case "!":
			se.neg = !se.neg
			v := not(se.evalBool(e.X))
			se.neg = !se.neg
			return boolVal(v)
		case "-":
			x := se.eval(e.X, hint)
			return Val{T: x.T, L: []string{"(bvneg " + x.L[0] + ")"}}
		case "^":
			x := se.eval(e.X, hint)
			return Val{T: x.T, L: []string{"(bvnot " + x.L[0] + ")"}}
		}
	case SAddrOf:
		a, t := se.addrOf(e.X)
		return Val{T: types.NewPointer(t), L: []string{a.Ref, a.Idx, a.Sub}}
	case SDeref:
		p := se.eval(e.X, nil)
		t := derefType(p.T)
		if t == nil {
			sfail("dereference of non-pointer %s", p.T)
		}
		return se.load(t, ptrAddr(p))
	case STernary:
		savedNP := se.nopol
		se.nopol = true
		c := se.evalBool(e.C)
		se.nopol = savedNP
		a, b := se.evalPair(e.A, e.B, hint)
		out := Val{T: a.T}
		for i := range a.L {
			out.L = append(out.L, ite(c, a.L[i], b.L[i]))
		}
		return out
	case SBinary:
		return se.binary(e, hint)
	case SCast:
		x := se.eval(e.X, nil)
		t := se.resolveType(e.Type)
		if isInteger(x.T) && isInteger(t) {
			return Val{T: t, L: []string{extend(x.L[0], intWidth(x.T), intWidth(t), isSigned(x.T))}}
		}
		if isBool(x.T) && isInteger(t) {
			return Val{T: t, L: []string{ite(x.L[0], bvLitI(1, intWidth(t)), bvLitI(0, intWidth(t)))}}
		}
		sfail("cast %s -> %s", x.T, t)
	case SSelector:
		if a, t, ok := se.place(e); ok {
			return se.loadPlace(t, a)
		}
		return se.selector(e)
	case SIndex:
		if a, t, ok := se.place(e); ok {
			return se.loadPlace(t, a)
		}
		x := se.eval(e.X, nil)
		return se.index(x, e.I)
	case SSlice:
		x := se.eval(e.X, nil)
		sl, ok := x.T.Underlying().(*types.Slice)
		if !ok {
			if isString(x.T) {
				lo, hi := bv64(0), "(slen "+x.L[0]+")"
				if e.Lo != nil {
					lo = se.idx(e.Lo)
				}
				if e.Hi != nil {
					hi = se.idx(e.Hi)
				}
				return f.substr(se.guard, x, lo, hi, x.T)
			}
			sfail("slice expression on %s", x.T)
		}
		lo, hi := bv64(0), x.L[3]
		if e.Lo != nil {
			lo = se.idx(e.Lo)
		}
		if e.Hi != nil {
			hi = se.idx(e.Hi)
		}
		a := f.elemAddr(Addr{Ref: x.L[0], Idx: x.L[1], Sub: x.L[2]}, sl.Elem(), lo)
		return Val{T: x.T, L: []string{a.Ref, a.Idx, a.Sub, "(bvsub " + hi + " " + lo + ")", "(bvsub " + x.L[4] + " " + lo + ")"}}
	case SQuant:
		return se.quant(e)
	case SCall:
		return se.call(e, hint)
	}
	sfail("cannot evaluate %T", e)
	return Val{}
}

func (se *SpecEnv) idx(e SExpr) string {
	v := se.eval(e, types.Typ[types.Int])
	if !isInteger(v.T) {
		sfail("integer index expected")
	}
	return extend(v.L[0], intWidth(v.T), 64, isSigned(v.T))
}

func (se *SpecEnv) isLit(e SExpr) bool {
	switch x := e.(type) {
	case SLit:
		return x.Kind == "int" || x.Kind == "nil"
	case SIdent:
		return se.untypedConst(x.Name) != nil
	case SUnary:
		return se.isLit(x.X)
	case SBinary:
		return se.isLit(x.X) && se.isLit(x.Y)
	}
	return false
}

// untypedConst returns the package-level untyped integer constant named
// name, if the name is not shadowed by a variable.
func (se *SpecEnv) untypedConst(name string) *types.Const {
	if _, ok := se.vars[name]; ok {
		return nil
	}
	if se.pkg == nil {
		return nil
	}
	c, ok := se.pkg.Scope().Lookup(name).(*types.Const)
	if !ok {
		return nil
	}
	if b, ok := c.Type().(*types.Basic); ok && b.Kind() == types.UntypedInt {
		return c
	}
	return nil
}

// evalPair evaluates two operands that must have the same type, typing
// literals from the other side.
func (se *SpecEnv) evalPair(a, b SExpr, hint types.Type) (Val, Val) {
	switch {
	case se.isLit(a) && !se.isLit(b):
		y := se.eval(b, hint)
		x := se.eval(a, y.T)
		return x, y
	case se.isLit(b) && !se.isLit(a):
		x := se.eval(a, hint)
		y := se.eval(b, x.T)
		return x, y
	}
	x := se.eval(a, hint)
	h := hint
	if h == nil {
		h = x.T
	}
	y := se.eval(b, h)
	return x, y
}

func (se *SpecEnv) binary(e SBinary, hint types.Type) Val {
	f := se.f
	switch e.Op {
	case "&&":
		return boolVal(and(se.evalBool(e.X), se.evalBool(e.Y)))
	case "||":
		return boolVal(or(se.evalBool(e.X), se.evalBool(e.Y)))
	case "==>":
		se.neg = !se.neg
		a := se.evalBool(e.X)
		se.neg = !se.neg
		return boolVal(implies(a, se.evalBool(e.Y)))
	case "<==>":
		savedNP := se.nopol
		se.nopol = true
		r := eq(se.evalBool(e.X), se.evalBool(e.Y))
		se.nopol = savedNP
		return boolVal(r)
	case "==", "!=":
		savedNP := se.nopol
		se.nopol = true
		x, y := se.evalPair(e.X, e.Y, nil)
		se.nopol = savedNP
		if len(x.L) != len(y.L) {
			sfail("comparison of %s and %s", x.T, y.T)
		}
		if isInteger(x.T) && isInteger(y.T) && intWidth(x.T) != intWidth(y.T) {
			sfail("comparison of %s and %s (different widths)", x.T, y.T)
		}
		f.eqState = se.state()
		r := f.valEq(x, y)
		if e.Op == "!=" {
			r = not(r)
		}
		return boolVal(r)
	case "<", "<=", ">", ">=":
		x, y := se.evalPair(e.X, e.Y, nil)
		if !isInteger(x.T) || !isInteger(y.T) {
			sfail("ordering on %s", x.T)
		}
		if intWidth(x.T) != intWidth(y.T) || isSigned(x.T) != isSigned(y.T) {
			sfail("ordering of %s and %s", x.T, y.T)
		}
		o := map[string]string{"<": "lt", "<=": "le", ">": "gt", ">=": "ge"}[e.Op]
		p := "bvu"
		if isSigned(x.T) {
			p = "bvs"
		}
		return boolVal("(" + p + o + " " + x.L[0] + " " + y.L[0] + ")")
	case "<<", ">>":
		x := se.eval(e.X, hint)
		y := se.eval(e.Y, types.Typ[types.Uint])
		if !isInteger(x.T) || !isInteger(y.T) {
			sfail("shift on %s", x.T)
		}
		op := tokSHL
		if e.Op == ">>" {
			op = tokSHR
		}
		return Val{T: x.T, L: []string{shiftTerm(op, x.L[0], intWidth(x.T), isSigned(x.T), y.L[0], intWidth(y.T))}}
	}
	x, y := se.evalPair(e.X, e.Y, hint)
	if e.Op == "+" && isString(x.T) && isString(y.T) {
		g := se.guard
		if g == "" || se.qdepth > 0 {
			g = "true"
		}
		return f.binop(g, token.ADD, x, y, x.T, token.NoPos)
	}
	if !isInteger(x.T) || !isInteger(y.T) {
		if isBool(x.T) && (e.Op == "&" || e.Op == "|") {
			if e.Op == "&" {
				return boolVal(and(x.L[0], y.L[0]))
			}
			return boolVal(or(x.L[0], y.L[0]))
		}
		sfail("arithmetic %s on %s and %s", e.Op, x.T, y.T)
	}
	if intWidth(x.T) != intWidth(y.T) {
		sfail("arithmetic %s on %s and %s (different widths)", e.Op, x.T, y.T)
	}
	a, b := x.L[0], y.L[0]
	var t string
	switch e.Op {
	case "+":
		t = "(bvadd " + a + " " + b + ")"
	case "-":
		t = "(bvsub " + a + " " + b + ")"
	case "*":
		t = "(bvmul " + a + " " + b + ")"
	case "/":
		if isSigned(x.T) {
			t = "(bvsdiv " + a + " " + b + ")"
		} else {
			t = "(bvudiv " + a + " " + b + ")"
		}
	case "%":
		if isSigned(x.T) {
			t = "(bvsrem " + a + " " + b + ")"
		} else {
			t = "(bvurem " + a + " " + b + ")"
		}
	case "&":
		t = "(bvand " + a + " " + b + ")"
	case "|":
		t = "(bvor " + a + " " + b + ")"
	case "^":
		t = "(bvxor " + a + " " + b + ")"
	case "&^":
		t = "(bvand " + a + " (bvnot " + b + "))"
	default:
		sfail("operator %s", e.Op)
	}
	return Val{T: x.T, L: []string{t}}
}

func (se *SpecEnv) ident(name string) Val {
	if se.inOld {
		if v, ok := se.oldVars[name]; ok {
			return v
		}
	}
	if v, ok := se.vars[name]; ok {
		return v
	}
	if name == "result" {
		if len(se.results) == 1 {
			return se.results[0]
		}
		sfail("result is ambiguous (%d results)", len(se.results))
	}
	if strings.HasPrefix(name, "result") {
		if n, err := strconv.Atoi(name[6:]); err == nil {
			if n < len(se.results) {
				return se.results[n]
			}
			sfail("no result %d", n)
		}
	}
	for i, rn := range se.resName {
		if rn == name && i < len(se.results) {
			return se.results[i]
		}
	}
	if se.locals != nil {
		if v, ok := se.locals(name, se.state()); ok {
			return v
		}
	}
	// package-level variable or constant
	if se.pkg != nil {
		if obj := se.pkg.Scope().Lookup(name); obj != nil {
			switch o := obj.(type) {
			case *types.Const:
				if isInteger(o.Type()) || o.Type() == untypedInt {
					bi, _ := new(big.Int).SetString(o.Val().ExactString(), 10)
					t := o.Type()
					if t == untypedInt {
						t = types.Typ[types.Int]
					}
					return Val{T: t, L: []string{bvLit(bi, intWidth(t))}}
				}
			case *types.Var:
				g := se.f.eng.globalOf(o)
				if g != nil {
					ref := se.f.globalRef(g)
					return se.load(o.Type(), Addr{Ref: ref, Idx: bv64(0), Sub: bv64(0)})
				}
			}
		}
	}
	sgone("unknown identifier %s", name)
	return Val{}
}

func (se *SpecEnv) load(t types.Type, a Addr) Val {
	v := se.f.load(se.state(), t, a)
	return v
}

// pureWF: the value of a pure function or method is a Go value: outside
// quantifiers its well-formedness (allocated references, allocation types)
// is assumed, as it is for the result of the same call in the code.
func (se *SpecEnv) pureWF(v Val) Val {
	if se.qdepth == 0 && se.guard != "" {
		if w := se.f.wf(se.state(), v); w != "true" {
			se.f.c.assume(se.guard, w)
		}
	}
	return v
}

func (se *SpecEnv) selector(e SSelector) Val {
	f := se.f
	// qualified package constant / variable
	if id, ok := e.X.(SIdent); ok {
		if _, isVar := se.vars[id.Name]; !isVar && se.pkg != nil {
			for _, imp := range se.pkg.Imports() {
				if imp.Name() == id.Name {
					obj := imp.Scope().Lookup(e.Name)
					if c, ok := obj.(*types.Const); ok && (isInteger(c.Type()) || c.Type() == untypedInt) {
						bi, _ := new(big.Int).SetString(c.Val().ExactString(), 10)
						t := c.Type()
						if t == untypedInt {
							t = types.Typ[types.Int]
						}
						return Val{T: t, L: []string{bvLit(bi, intWidth(t))}}
					}
					if v, ok := obj.(*types.Var); ok {
						if g := f.eng.globalOf(v); g != nil {
							return se.load(v.Type(), Addr{Ref: f.globalRef(g), Idx: bv64(0), Sub: bv64(0)})
						}
					}
				}
			}
		}
	}
	x := se.eval(e.X, nil)
	t := x.T
	if pt := derefType(t); pt != nil {
		if _, ok := pt.Underlying().(*types.Struct); ok {
			fi, ok := se.findField(pt, e.Name)
			if !ok {
				sgone("no field %s in %s", e.Name, pt)
			}
			v := se.load(fi.T, ptrAddr(x).plusSub(fi.Off))
			se.noteDeref(not(eq(x.L[0], "0")))
			if se.qdepth == 0 && x.Loc == nil {
				// a field of a non-nil pointer is real memory holding a
				// valid Go value of the field's type
				if w := f.wf(se.state(), v); w != "true" {
					f.c.assume(se.guard, implies(not(eq(x.L[0], "0")), w))
				}
			}
			return v
		}
	}
	if _, ok := t.Underlying().(*types.Struct); ok {
		fi, ok := se.findField(t, e.Name)
		if !ok {
			sgone("no field %s in %s", e.Name, t)
		}
		n := f.l.cells(fi.T)
		return Val{T: fi.T, L: x.L[fi.Off : fi.Off+n]}
	}
	sfail("selector .%s on %s", e.Name, t)
	return Val{}
}

func (se *SpecEnv) findField(t types.Type, name string) (fieldInfo, bool) {
	for _, fi := range se.f.l.structFields(t) {
		if fi.Name == name {
			return fi, true
		}
	}
	// promoted fields through embedded structs
	for _, fi := range se.f.l.structFields(t) {
		st, ok := fi.T.Underlying().(*types.Struct)
		if !ok {
			continue
		}
		for i := 0; i < st.NumFields(); i++ {
			if st.Field(i).Name() == name && t.Underlying().(*types.Struct).NumFields() > 0 {
				for j := 0; j < t.Underlying().(*types.Struct).NumFields(); j++ {
					if t.Underlying().(*types.Struct).Field(j).Name() == fi.Name && t.Underlying().(*types.Struct).Field(j).Embedded() {
						inner, ok := se.findField(fi.T, name)
						if ok {
							inner.Off += fi.Off
							return inner, true
						}
					}
				}
			}
		}
	}
	return fieldInfo{}, false
}

func (se *SpecEnv) index(x Val, ie SExpr) Val {
	f := se.f
	switch u := x.T.Underlying().(type) {
	case *types.Slice:
		i := se.idx(ie)
		a := f.elemAddr(Addr{Ref: x.L[0], Idx: x.L[1], Sub: x.L[2]}, u.Elem(), i)
		return se.load(u.Elem(), a)
	case *types.Array:
		// array value: constant or symbolic index over flattened leaves
		ec := f.l.cells(u.Elem())
		i := se.idx(ie)
		sorts := f.l.leafSorts(u.Elem())
		out := Val{T: u.Elem(), L: make([]string, ec)}
		for k := 0; k < ec; k++ {
			t := zeroOf(sorts[k])
			for j := int(u.Len()) - 1; j >= 0; j-- {
				t = ite(eq(i, bv64(int64(j))), x.L[j*ec+k], t)
			}
			out.L[k] = t
		}
		return out
	case *types.Pointer:
		if arr, ok := u.Elem().Underlying().(*types.Array); ok {
			i := se.idx(ie)
			var a Addr
			if f.l.cells(arr.Elem()) == 1 {
				a = Addr{Ref: x.L[0], Idx: x.L[1], Sub: bvadd(x.L[2], i)}
			} else {
				a = Addr{Ref: x.L[0], Idx: bvadd(x.L[1], i), Sub: x.L[2]}
			}
			return se.load(arr.Elem(), a)
		}
	case *types.Map:
		k := se.eval(ie, u.Key())
		has, v := f.mapGet(se.state(), u, x.L[0], k.L[0])
		if se.qdepth == 0 {
			// values stored in maps are valid Go values
			if w := f.wf(se.state(), v); w != "true" {
				f.c.assume(se.guard, implies(and(not(eq(x.L[0], "0")), has), w))
			}
		}
		// Go semantics: the zero value for an absent key (and for a nil map)
		present := and(not(eq(x.L[0], "0")), has)
		z := f.zero(u.Elem())
		out := Val{T: v.T}
		for i := range v.L {
			out.L = append(out.L, ite(present, v.L[i], z.L[i]))
		}
		return out
	case *types.Basic:
		if isString(x.T) {
			i := se.idx(ie)
			return Val{T: types.Typ[types.Uint8], L: []string{"(sbyte " + x.L[0] + " " + i + ")"}}
		}
	}
	sfail("index on %s", x.T)
	return Val{}
}

func (se *SpecEnv) quant(e SQuant) Val {
	// positive existential in an assumption (outside any quantifier):
	// skolemise with fresh constants, remembered as instantiation candidates
	if !e.Forall && !se.goal && !se.neg && !se.nopol && se.qdepth == 0 {
		saved := map[string]*Val{}
		for _, p := range e.Vars {
			t := se.resolveType(p.Type)
			sorts := se.f.l.leafSorts(t)
			if len(sorts) != 1 {
				sfail("quantified variable %s of non-scalar type %s", p.Name, t)
			}
			sk := se.f.c.fresh("sk_"+p.Name, sorts[0])
			se.f.c.skolems = append(se.f.c.skolems, skolemConst{sorts[0], sk})
			if old, ok := se.vars[p.Name]; ok {
				o := old
				saved[p.Name] = &o
			} else {
				saved[p.Name] = nil
			}
			se.vars[p.Name] = Val{T: t, L: []string{sk}}
		}
		body := se.evalBool(e.Body)
		for n, v := range saved {
			if v == nil {
				delete(se.vars, n)
			} else {
				se.vars[n] = *v
			}
		}
		return boolVal(body)
	}
	// positive existential in a goal without a declared witness: offer the
	// skolem constants of assumed existentials as explicit instances
	// (P(sk) implies the existential, so the disjunction is equivalent)
	if !e.Forall && se.goal && !se.neg && !se.nopol && se.qdepth == 0 && len(e.Vars) == 1 && len(se.f.c.skolems) > 0 {
		if _, declared := se.witness[e.Vars[0].Name]; !declared {
			p := e.Vars[0]
			t := se.resolveType(p.Type)
			sorts := se.f.l.leafSorts(t)
			var alts []string
			if len(sorts) == 1 {
				cands := se.f.c.skolems
				n := 0
				for i := len(cands) - 1; i >= 0 && n < 6; i-- {
					if cands[i].sort != sorts[0] {
						continue
					}
					n++
					old, had := se.vars[p.Name]
					se.vars[p.Name] = Val{T: t, L: []string{cands[i].name}}
					alts = append(alts, se.evalBool(e.Body))
					if had {
						se.vars[p.Name] = old
					} else {
						delete(se.vars, p.Name)
					}
				}
			}
			if len(alts) > 0 {
				se.goal = false // evaluate the original quantifier as is
				orig := se.quantRaw(e)
				se.goal = true
				return boolVal(or(append(alts, orig.L[0])...))
			}
		}
	}
	return se.quantRaw(e)
}

func (se *SpecEnv) quantRaw(e SQuant) Val {
	// positive existential in a goal with declared witnesses: instantiate
	if !e.Forall && se.goal && !se.neg && !se.nopol && se.witness != nil {
		all := true
		for _, p := range e.Vars {
			if _, ok := se.witness[p.Name]; !ok {
				all = false
			}
		}
		if all {
			saved := map[string]*Val{}
			for _, p := range e.Vars {
				t := se.resolveType(p.Type)
				w := se.eval(se.witness[p.Name], t)
				if isInteger(w.T) && isInteger(t) && intWidth(w.T) != intWidth(t) {
					w = Val{T: t, L: []string{extend(w.L[0], intWidth(w.T), intWidth(t), isSigned(w.T))}}
				}
				if old, ok := se.vars[p.Name]; ok {
					o := old
					saved[p.Name] = &o
				} else {
					saved[p.Name] = nil
				}
				se.vars[p.Name] = Val{T: t, L: w.L}
			}
			body := se.evalBool(e.Body)
			for n, v := range saved {
				if v == nil {
					delete(se.vars, n)
				} else {
					se.vars[n] = *v
				}
			}
			return boolVal(body)
		}
	}
	saved := map[string]*Val{}
	var binders []string
	for _, p := range e.Vars {
		t := se.resolveType(p.Type)
		sorts := se.f.l.leafSorts(t)
		if len(sorts) != 1 {
			sfail("quantified variable %s of non-scalar type %s", p.Name, t)
		}
		se.f.c.n++
		name := fmt.Sprintf("%s!q%d", sanitize(p.Name), se.f.c.n)
		binders = append(binders, "("+name+" "+sorts[0]+")")
		if old, ok := se.vars[p.Name]; ok {
			o := old
			saved[p.Name] = &o
		} else {
			saved[p.Name] = nil
		}
		se.vars[p.Name] = Val{T: t, L: []string{name}}
	}
	// definitions made while evaluating the body may mention the bound
	// variables; capture them and inline as let-bindings.
	mark := len(se.f.c.decls)
	se.qdepth++
	body := se.evalBool(e.Body)
	se.qdepth--
	body = se.f.c.liftLocalDefs(mark, body)
	for n, v := range saved {
		if v == nil {
			delete(se.vars, n)
		} else {
			se.vars[n] = *v
		}
	}
	q := "forall"
	if !e.Forall {
		q = "exists"
	}
	return boolVal("(" + q + " (" + strings.Join(binders, " ") + ") " + body + ")")
}

// liftLocalDefs removes define-fun lines added since mark that (directly or
// transitively) mention a bound variable, and wraps body in equivalent
// let-bindings.
func (c *Ctx) liftLocalDefs(mark int, body string) string {
	type def struct{ name, sort, term string }
	var kept []string
	var lifted []def
	isBoundDep := func(term string) bool {
		if strings.Contains(term, "!q") {
			return true
		}
		for _, d := range lifted {
			if containsName(term, d.name) {
				return true
			}
		}
		return false
	}
	for _, line := range c.decls[mark:] {
		if strings.HasPrefix(line, "(define-fun ") {
			rest := line[len("(define-fun "):]
			sp := strings.Index(rest, " ")
			name := rest[:sp]
			rest = rest[sp+1:]
			// "() sort term)"
			rest = strings.TrimPrefix(rest, "() ")
			var sort string
			if rest[0] == '(' {
				j := matchParen(rest, 0)
				sort = rest[:j+1]
				rest = rest[j+2:]
			} else {
				sp = strings.Index(rest, " ")
				sort = rest[:sp]
				rest = rest[sp+1:]
			}
			term := rest[:len(rest)-1]
			if isBoundDep(term) {
				lifted = append(lifted, def{name, sort, term})
				continue
			}
		}
		kept = append(kept, line)
	}
	c.decls = append(c.decls[:mark], kept...)
	for i := len(lifted) - 1; i >= 0; i-- {
		d := lifted[i]
		if containsName(body, d.name) || func() bool {
			for _, l := range lifted[i+1:] {
				if containsName(l.term, d.name) {
					return true
				}
			}
			return false
		}() {
			body = "(let ((" + d.name + " " + d.term + ")) " + body + ")"
		}
	}
	return body
}

func containsName(term, name string) bool {
	i := 0
	for {
		j := strings.Index(term[i:], name)
		if j < 0 {
			return false
		}
		k := i + j + len(name)
		if k >= len(term) || term[k] == ' ' || term[k] == ')' {
			if i+j == 0 || term[i+j-1] == ' ' || term[i+j-1] == '(' {
				return true
			}
		}
		i = i + j + 1
	}
}

func (se *SpecEnv) resolveType(t SType) types.Type {
	if t.Ptr {
		return types.NewPointer(se.resolveType(*t.Elem))
	}
	if t.Slice {
		return types.NewSlice(se.resolveType(*t.Elem))
	}
	if t.Pkg == "" {
		if obj := types.Universe.Lookup(t.Name); obj != nil {
			if tn, ok := obj.(*types.TypeName); ok {
				return tn.Type()
			}
		}
		if se.pkg != nil {
			if obj := se.pkg.Scope().Lookup(t.Name); obj != nil {
				if tn, ok := obj.(*types.TypeName); ok {
					return tn.Type()
				}
			}
		}
		sfail("unknown type %s", t.Name)
	}
	if se.pkg != nil {
		for _, imp := range se.pkg.Imports() {
			if imp.Name() == t.Pkg {
				if obj := imp.Scope().Lookup(t.Name); obj != nil {
					if tn, ok := obj.(*types.TypeName); ok {
						return tn.Type()
					}
				}
			}
		}
	}
	if p := se.f.eng.pkgByName(t.Pkg); p != nil {
		if obj := p.Scope().Lookup(t.Name); obj != nil {
			if tn, ok := obj.(*types.TypeName); ok {
				return tn.Type()
			}
		}
	}
	sfail("unknown type %s.%s", t.Pkg, t.Name)
	return nil
}

func (se *SpecEnv) call(e SCall, hint types.Type) Val {
	f := se.f
	switch e.Fun {
	case "old":
		if se.old == nil {
			sfail("old() not available here")
		}
		saved := se.inOld
		se.inOld = true
		v := se.eval(e.Args[0], hint)
		se.inOld = saved
		return v
	case "len":
		x := se.eval(e.Args[0], nil)
		switch x.T.Underlying().(type) {
		case *types.Slice:
			return Val{T: types.Typ[types.Int], L: []string{x.L[3]}}
		case *types.Basic:
			return Val{T: types.Typ[types.Int], L: []string{"(slen " + x.L[0] + ")"}}
		case *types.Map:
			return Val{T: types.Typ[types.Int], L: []string{ite(eq(x.L[0], "0"), bv64(0), f.mapLen(se.state(), x.L[0]))}}
		case *types.Array:
			return Val{T: types.Typ[types.Int], L: []string{bv64(x.T.Underlying().(*types.Array).Len())}}
		}
		sfail("len of %s", x.T)
	case "cap":
		x := se.eval(e.Args[0], nil)
		if _, ok := x.T.Underlying().(*types.Slice); ok {
			return Val{T: types.Typ[types.Int], L: []string{x.L[4]}}
		}
		sfail("cap of %s", x.T)
	case "fresh":
		x := se.eval(e.Args[0], nil)
		if se.old == nil {
			sfail("fresh() needs a pre-state")
		}
		return boolVal("(>= " + x.L[0] + " " + se.old.alloc + ")")
	case "allocated":
		x := se.eval(e.Args[0], nil)
		return boolVal(and("(< 0 "+x.L[0]+")", "(< "+x.L[0]+" "+se.state().alloc+")"))
	case "has": // has(m, k): key present in map
		m := se.eval(e.Args[0], nil)
		mt, ok := m.T.Underlying().(*types.Map)
		if !ok {
			sfail("has() on %s", m.T)
		}
		k := se.eval(e.Args[1], mt.Key())
		h, _ := f.mapGet(se.state(), mt, m.L[0], k.L[0])
		return boolVal(and(not(eq(m.L[0], "0")), h))
	case "wellformed": // wellformed(x): the typing facts the engine assumes of every value loaded by the code (for values only a quantified clause reaches)
		x := se.eval(e.Args[0], nil)
		return boolVal(f.wf(se.state(), x))
	case "foreignobject": // the object x refers to was not allocated as a struct or array type of the repository (or x is nil)
		x := se.eval(e.Args[0], nil)
		ref := x.L[0]
		if _, isIface := x.T.Underlying().(*types.Interface); isIface {
			ref = x.L[1]
		}
		return boolVal(or(eq(ref, "0"), "(< (objtype "+ref+") 1000)"))
	case "unchangedobject": // every cell of the object x refers to is as in the pre-state
		x := se.eval(e.Args[0], nil)
		ref := x.L[0]
		if _, isIface := x.T.Underlying().(*types.Interface); isIface {
			ref = x.L[1]
		}
		if se.old == nil {
			sfail("unchangedobject() needs a pre-state")
		}
		var cs []string
		for _, so := range allClasses {
			cs = append(cs, eq(sel(f.heap(se.cur, so), ref), sel(f.heap(se.old, so), ref)))
		}
		return boolVal(and(cs...))
	case "ghostint": // ghostint("name", x): ghost integer attached to the object x refers to
		lit, ok := e.Args[0].(SLit)
		if !ok || lit.Kind != "string" {
			sfail("ghostint needs a name literal")
		}
		x := se.eval(e.Args[1], nil)
		ref := x.L[0]
		if _, isIface := x.T.Underlying().(*types.Interface); isIface {
			ref = x.L[1]
		}
		return Val{T: types.Typ[types.Int], L: []string{sel(f.lazyHeap(se.state(), "map:ghost:"+lit.Val), ref)}}
	case "call": // call("<function key>", args...): a function with a pure contract (methods included)
		lit, ok := e.Args[0].(SLit)
		if !ok || lit.Kind != "string" {
			sfail("call needs the function key as a string literal")
		}
		con := f.eng.contracts[lit.Val]
		fn := f.eng.fnByKey[lit.Val]
		if con == nil || !con.Pure || fn == nil {
			sfail("no pure contract for %s", lit.Val)
		}
		var args []Val
		for i, a := range e.Args[1:] {
			var pt types.Type
			if i < len(fn.Params) {
				pt = fn.Params[i].Type()
			}
			args = append(args, se.eval(a, pt))
		}
		var rt types.Type = fn.Signature.Results()
		if fn.Signature.Results().Len() == 1 {
			rt = fn.Signature.Results().At(0).Type()
		}
		f.c.trusted["assumed contract "+lit.Val] = true
		res := se.pureWF(f.pureResult(se.state(), lit.Val, args, rt, con.Reads))
		f.assumePurePost(se, con, paramNames(fn), args, res, rt, lit.Val)
		return res
	case "callresult": // callresult("Name", k): the value returned by the k-th call of Name in this function
		lit, ok := e.Args[0].(SLit)
		if !ok || lit.Kind != "string" {
			sfail("callresult needs the callee's short name as a string literal")
		}
		kl, ok := e.Args[1].(SLit)
		if !ok || kl.Kind != "int" {
			sfail("callresult needs a literal ordinal")
		}
		v, ok := f.callResults[lit.Val+"#"+kl.Val]
		if !ok {
			sgone("no call %s#%s recorded (yet) in this function", lit.Val, kl.Val)
		}
		return v
	case "atcall": // atcall("Name", k, e): e evaluated over the heap right after the k-th call of Name in this function (locals: current values)
		lit, ok := e.Args[0].(SLit)
		if !ok || lit.Kind != "string" {
			sfail("atcall needs the callee's short name as a string literal")
		}
		kl, ok := e.Args[1].(SLit)
		if !ok || kl.Kind != "int" {
			sfail("atcall needs a literal ordinal")
		}
		snap, ok := f.callStates[lit.Val+"#"+kl.Val]
		if !ok {
			sgone("no call %s#%s recorded (yet) in this function", lit.Val, kl.Val)
		}
		// local variables keep their current values; only the heap is the earlier one
		hy := snap.clone()
		hy.locals = se.state().locals
		savedCur, savedOld := se.cur, se.inOld
		se.cur, se.inOld = hy, false
		v := se.eval(e.Args[2], hint)
		se.cur, se.inOld = savedCur, savedOld
		return v
	case "first", "second", "third": // projections of a tuple value
		x := se.eval(e.Args[0], nil)
		tup, ok := x.T.(*types.Tuple)
		if !ok {
			sfail("%s() on non-tuple %s", e.Fun, x.T)
		}
		k := map[string]int{"first": 0, "second": 1, "third": 2}[e.Fun]
		off := 0
		for i := 0; i < k; i++ {
			off += f.l.cells(tup.At(i).Type())
		}
		n := f.l.cells(tup.At(k).Type())
		return Val{T: tup.At(k).Type(), L: x.L[off : off+n]}
	case "icall": // icall("pkg.Iface.Method", recv, args...): pure interface method
		lit, ok := e.Args[0].(SLit)
		if !ok || lit.Kind != "string" {
			sfail("icall needs the method key as a string literal")
		}
		con := f.eng.ifaceContract(lit.Val)
		if con == nil || !con.Pure {
			sfail("no pure interface contract %s", lit.Val)
		}
		var args []Val
		for _, a := range e.Args[1:] {
			args = append(args, se.eval(a, nil))
		}
		it, ok := args[0].T.Underlying().(*types.Interface)
		if !ok {
			sfail("icall receiver is not an interface")
		}
		var rt types.Type
		mname := lit.Val[strings.LastIndex(lit.Val, ".")+1:]
		for i := 0; i < it.NumMethods(); i++ {
			if it.Method(i).Name() == mname {
				sig := it.Method(i).Type().(*types.Signature)
				rt = sig.Results()
				if sig.Results().Len() == 1 {
					rt = sig.Results().At(0).Type()
				}
			}
		}
		if rt == nil {
			sfail("interface has no method %s", mname)
		}
		f.c.trusted["iface contract "+lit.Val] = true
		return se.pureWF(f.pureResult(se.state(), lit.Val, args, rt, con.Reads))
	case "visited": // visited(N, k): the range-over-map statement stepped by loop N has already produced key k
		nl, ok := e.Args[0].(SLit)
		if !ok || nl.Kind != "int" || se.fr == nil {
			sfail("visited(N, k) needs a literal loop ordinal (and a function body)")
		}
		var ord int
		fmt.Sscanf(nl.Val, "%d", &ord)
		for _, li := range se.fr.loops {
			if li.ord != ord {
				continue
			}
			for _, in := range li.head.Instrs {
				nx, ok := in.(*ssa.Next)
				if !ok || nx.IsString {
					continue
				}
				rng, ok := nx.Iter.(*ssa.Range)
				if !ok {
					continue
				}
				mt, ok := rng.X.Type().Underlying().(*types.Map)
				if !ok {
					continue
				}
				k := se.eval(e.Args[1], mt.Key())
				return boolVal(sel(f.lazyHeap(se.state(), f.rangeVisKey(se.fr, rng, mt)), k.L[0]))
			}
		}
		sgone("loop %d does not step a range over a map", ord)
	case "holds": // holds(x, v): the interface value x holds a value of v's type that equals v (Go's x == v)
		x := se.eval(e.Args[0], nil)
		if _, ok := x.T.Underlying().(*types.Interface); !ok {
			sfail("holds() needs an interface value, got %s", x.T)
		}
		v := se.eval(e.Args[1], nil)
		if _, ok := v.T.Underlying().(*types.Basic); !ok {
			sfail("holds() compares with a value of a basic type, got %s", v.T)
		}
		vt := v.T
		if b, ok := vt.(*types.Basic); ok && b.Info()&types.IsUntyped != 0 {
			vt = types.Default(vt)
		}
		pv := se.load(vt, Addr{Ref: x.L[1], Idx: x.L[2], Sub: x.L[3]})
		f.eqState = se.state()
		return boolVal(and(eq(x.L[0], f.c.typeTag(vt)), f.valEq(pv, Val{T: vt, L: v.L})))
	case "boxedslice": // the backing array of the slice held in an interface value (as a pointer to its object; for object(...))
		x := se.eval(e.Args[0], nil)
		if _, ok := x.T.Underlying().(*types.Interface); !ok {
			sfail("boxedslice() needs an interface value, got %s", x.T)
		}
		ref := f.loadLeaf(se.state(), SInt, Addr{Ref: x.L[1], Idx: x.L[2], Sub: x.L[3]})
		return Val{T: types.NewPointer(types.Typ[types.Uint8]), L: []string{f.c.define("bxs", SInt, ref), bv64(0), bv64(0)}}
	case "asbytes": // the []byte held in an interface value
		x := se.eval(e.Args[0], nil)
		bt := types.NewSlice(types.Typ[types.Uint8])
		return se.load(bt, Addr{Ref: x.L[1], Idx: x.L[2], Sub: x.L[3]})
	case "isbytes":
		x := se.eval(e.Args[0], nil)
		return boolVal(eq(x.L[0], f.c.typeTag(types.NewSlice(types.Typ[types.Uint8]))))
	case "min", "max":
		x, y := se.evalPair(e.Args[0], e.Args[1], hint)
		if !isInteger(x.T) || intWidth(x.T) != intWidth(y.T) {
			sfail("%s on %s and %s", e.Fun, x.T, y.T)
		}
		op := "bvult"
		if isSigned(x.T) {
			op = "bvslt"
		}
		c := "(" + op + " " + x.L[0] + " " + y.L[0] + ")"
		if e.Fun == "max" {
			c = "(" + op + " " + y.L[0] + " " + x.L[0] + ")"
		}
		return Val{T: x.T, L: []string{ite(c, x.L[0], y.L[0])}}
	case "suffixof": // suffixof(a, b, k): a is exactly b[k:]
		a := se.eval(e.Args[0], nil)
		b := se.eval(e.Args[1], a.T)
		k := se.idx(e.Args[2])
		sl, ok := a.T.Underlying().(*types.Slice)
		if !ok {
			sfail("suffixof() on %s", a.T)
		}
		cs := []string{eq(a.L[0], b.L[0]), eq(a.L[3], "(bvsub "+b.L[3]+" "+k+")"), eq(a.L[4], "(bvsub "+b.L[4]+" "+k+")")}
		if f.l.oneCell(sl.Elem()) {
			cs = append(cs, eq(a.L[1], b.L[1]), eq(a.L[2], "(bvadd "+b.L[2]+" "+k+")"))
		} else {
			cs = append(cs, eq(a.L[2], b.L[2]), eq(a.L[1], "(bvadd "+b.L[1]+" "+k+")"))
		}
		return boolVal(and(cs...))
	case "off": // position of a slice's first element within its backing object
		x := se.eval(e.Args[0], nil)
		sl, ok := x.T.Underlying().(*types.Slice)
		if !ok {
			sfail("off() on %s", x.T)
		}
		if f.l.oneCell(sl.Elem()) {
			return Val{T: types.Typ[types.Int], L: []string{x.L[2]}}
		}
		return Val{T: types.Typ[types.Int], L: []string{x.L[1]}}
	case "isnil":
		x := se.eval(e.Args[0], nil)
		return boolVal(eq(x.L[0], "0"))
	case "ref": // object identity of a pointer/slice/map (Int); for an interface, of its payload
		x := se.eval(e.Args[0], nil)
		if _, isIface := x.T.Underlying().(*types.Interface); isIface {
			return Val{T: refType, L: []string{x.L[1]}}
		}
		return Val{T: refType, L: []string{x.L[0]}}
	case "same": // same(a, b): identical leaves (pointer/slice identity)
		x := se.eval(e.Args[0], nil)
		y := se.eval(e.Args[1], x.T)
		var es []string
		for i := range x.L {
			es = append(es, eq(x.L[i], y.L[i]))
		}
		return boolVal(and(es...))
	case "typeis": // typeis(x, T): dynamic type of interface x is T
		x := se.eval(e.Args[0], nil)
		tn, ok := e.Args[1].(SIdent)
		var t types.Type
		if ok {
			t = se.resolveType(SType{Name: tn.Name})
		} else if d, ok := e.Args[1].(SDeref); ok {
			t = types.NewPointer(se.resolveType(SType{Name: d.X.(SIdent).Name}))
		} else {
			sfail("typeis(x, T)")
		}
		return boolVal(eq(x.L[0], f.c.typeTag(t)))
	case "held": // held(mu): lock ghost of a mutex (by address expression)
		a, t := se.addrOf(e.Args[0])
		_ = t
		return boolVal(f.loadLeaf(se.state(), SBool, a.plusSub(f.heldOffset(t))))
	case "tz32":
		x := se.eval(e.Args[0], types.Typ[types.Uint32])
		return Val{T: types.Typ[types.Int], L: []string{tzTerm(x.L[0], 32)}}
	case "bit": // bit(x, k): bit k of x is set (k any integer, false if out of range)
		x := se.eval(e.Args[0], nil)
		k := se.eval(e.Args[1], types.Typ[types.Int])
		w := intWidth(x.T)
		kk := extend(k.L[0], intWidth(k.T), 64, isSigned(k.T))
		sh := shiftTerm(tokSHR, x.L[0], w, false, kk, 64)
		return boolVal(and("(bvult "+kk+" "+bv64(int64(w))+")", eq("((_ extract 0 0) "+sh+")", "#b1")))
	}
	// user spec function: macro expansion
	sf := f.eng.specFunc(se.pkg, e.Fun)
	if sf == nil {
		// a pure function of the program with a (trusted or proved) pure contract
		key := e.Fun
		if !strings.Contains(key, ".") && se.pkg != nil {
			key = strings.TrimPrefix(se.pkg.Path(), modPath+"/") + "." + key
		} else if i := strings.Index(key, "."); i > 0 && se.pkg != nil {
			for _, imp := range se.pkg.Imports() {
				if imp.Name() == key[:i] {
					key = strings.TrimPrefix(imp.Path(), modPath+"/") + key[i:]
				}
			}
		}
		if con := f.eng.contracts[key]; con != nil && con.Pure {
			fn := f.eng.fnByKey[key]
			if fn == nil {
				sfail("pure function %s is not part of the loaded program", key)
			}
			var args []Val
			for i, a := range e.Args {
				var pt types.Type
				if i < fn.Signature.Params().Len() {
					pt = fn.Signature.Params().At(i).Type()
				}
				args = append(args, se.eval(a, pt))
			}
			var rt types.Type = fn.Signature.Results()
			if fn.Signature.Results().Len() == 1 {
				rt = fn.Signature.Results().At(0).Type()
			}
			f.c.trusted["assumed contract "+key] = true
			res := se.pureWF(f.pureResult(se.state(), key, args, rt, con.Reads))
			f.assumePurePost(se, con, paramNames(fn), args, res, rt, key)
			return res
		}
	}
	if sf == nil {
		sfail("unknown spec function %s", e.Fun)
	}
	if len(sf.Params) != len(e.Args) {
		sfail("%s: %d arguments, want %d", e.Fun, len(e.Args), len(sf.Params))
	}
	if se.depth > 40 {
		sfail("spec function recursion too deep in %s", e.Fun)
	}
	sub := &SpecEnv{f: f, pkg: f.eng.typesPkg(sf.Pkg, se.pkg), vars: map[string]Val{}, oldVars: map[string]Val{}, cur: se.cur, old: se.old, inOld: se.inOld, guard: se.guard, depth: se.depth + 1,
		results: se.results, resName: se.resName, qdepth: se.qdepth, goal: se.goal, neg: se.neg, nopol: se.nopol, witness: se.witness, locals: se.locals}
	for i, p := range sf.Params {
		pt := sub.resolveType(p.Type)
		v := se.eval(e.Args[i], pt)
		if len(v.L) != len(f.l.leafSorts(pt)) {
			sfail("%s: argument %d has type %s, want %s", e.Fun, i, v.T, pt)
		}
		if isInteger(pt) && isInteger(v.T) && intWidth(pt) != intWidth(v.T) {
			sfail("%s: argument %d has type %s, want %s", e.Fun, i, v.T, pt)
		}
		// name the argument leaves to keep terms small
		sorts := f.l.leafSorts(pt)
		nv := Val{T: pt, L: make([]string, len(v.L))}
		for k := range v.L {
			nv.L[k] = f.c.define("a_"+p.Name, sorts[k], v.L[k])
		}
		sub.vars[p.Name] = nv
		sub.oldVars[p.Name] = nv
	}
	rt := sub.resolveType(sf.Ret)
	r := sub.eval(sf.Body, rt)
	sorts := f.l.leafSorts(rt)
	if len(r.L) != len(sorts) {
		sfail("%s: body has type %s, want %s", e.Fun, r.T, rt)
	}
	out := Val{T: rt, L: make([]string, len(r.L))}
	for k := range r.L {
		out.L[k] = f.c.define(sf.Name, sorts[k], r.L[k])
	}
	return out
}

var refType = types.NewNamed(types.NewTypeName(0, nil, "ref", nil), types.Typ[types.Int], nil)

// tzTerm counts trailing zeros of a w-bit vector (result 64-bit; w if zero).
func tzTerm(x string, w int) string {
	t := bv64(int64(w))
	for i := w - 1; i >= 0; i-- {
		t = ite(eq(fmt.Sprintf("((_ extract %d %d) %s)", i, i, x), "#b1"), bv64(int64(i)), t)
	}
	return t
}

// addrOf evaluates an lvalue designator to its address and type.
func (se *SpecEnv) addrOf(e SExpr) (Addr, types.Type) {
	f := se.f
	if pa, pt, ok := se.place(e); ok {
		return pa.Addr, pt
	}
	switch e := e.(type) {
	case SSelector:
		x := se.eval(e.X, nil)
		pt := derefType(x.T)
		if pt == nil {
			// selector on an addressable struct expression
			ba, bt := se.addrOf(e.X)
			fi, ok := se.findField(bt, e.Name)
			if !ok {
				sgone("no field %s in %s", e.Name, bt)
			}
			return ba.plusSub(fi.Off), fi.T
		}
		fi, ok := se.findField(pt, e.Name)
		if !ok {
			sgone("no field %s in %s", e.Name, pt)
		}
		return ptrAddr(x).plusSub(fi.Off), fi.T
	case SIndex:
		x := se.eval(e.X, nil)
		switch u := x.T.Underlying().(type) {
		case *types.Slice:
			i := se.idx(e.I)
			return f.elemAddr(Addr{Ref: x.L[0], Idx: x.L[1], Sub: x.L[2]}, u.Elem(), i), u.Elem()
		}
		ba, bt := se.addrOf(e.X)
		if arr, ok := bt.Underlying().(*types.Array); ok {
			i := se.idx(e.I)
			if f.l.cells(arr.Elem()) == 1 {
				return Addr{Ref: ba.Ref, Idx: ba.Idx, Sub: bvadd(ba.Sub, i)}, arr.Elem()
			}
			return Addr{Ref: ba.Ref, Idx: bvadd(ba.Idx, i), Sub: ba.Sub}, arr.Elem()
		}
		sfail("address of index on %s", x.T)
	case SDeref:
		p := se.eval(e.X, nil)
		return ptrAddr(p), derefType(p.T)
	case SIdent:
		// a package-level variable
		if se.pkg != nil {
			if obj, ok := se.pkg.Scope().Lookup(e.Name).(*types.Var); ok {
				if g := f.eng.globalOf(obj); g != nil {
					return Addr{Ref: f.globalRef(g), Idx: bv64(0), Sub: bv64(0)}, obj.Type()
				}
			}
		}
	}
	sfail("not an addressable designator: %v", e)
	return Addr{}, nil
}

func placeLike(e SExpr) bool {
	switch e.(type) {
	case SSelector, SIndex, SDeref:
		return true
	}
	return false
}

// loadPlace loads a value from a place, with the validity assumption for
// values that live in real memory (outside quantifiers).
func (se *SpecEnv) loadPlace(t types.Type, a placeAddr) Val {
	v := se.load(t, a.Addr)
	if se.qdepth == 0 && a.nonnil != "" {
		if w := se.f.wf(se.state(), v); w != "true" {
			se.f.c.assume(se.guard, implies(a.nonnil, w))
		}
	}
	return v
}

type placeAddr struct {
	Addr
	nonnil string // condition under which the place is real memory ("" = unknown)
}

// place evaluates a selector/index chain to the address of the designated
// cell without loading intermediate aggregates.
func (se *SpecEnv) place(e SExpr) (placeAddr, types.Type, bool) {
	f := se.f
	switch e := e.(type) {
	case SSelector:
		// package-qualified variables are places (their global object);
		// other package-qualified identifiers are not
		if id, ok := e.X.(SIdent); ok {
			if _, isVar := se.lookupVar(id.Name); !isVar {
				if se.pkg != nil {
					for _, imp := range se.pkg.Imports() {
						if imp.Name() != id.Name {
							continue
						}
						if v, ok := imp.Scope().Lookup(e.Name).(*types.Var); ok {
							if g := f.eng.globalOf(v); g != nil {
								return placeAddr{Addr{Ref: f.globalRef(g), Idx: bv64(0), Sub: bv64(0)}, "true"}, v.Type(), true
							}
						}
					}
				}
				return placeAddr{}, nil, false
			}
		}
		var base placeAddr
		var bt types.Type
		if placeLike(e.X) {
			pa, pt, ok := se.place(e.X)
			if !ok {
				return placeAddr{}, nil, false
			}
			if derefType(pt) != nil {
				// pointer stored at a place: load it
				pv := se.loadPlace(pt, pa)
				base = placeAddr{ptrAddr(pv), not(eq(pv.L[0], "0"))}
				se.noteDeref(base.nonnil)
				bt = derefType(pt)
			} else {
				base, bt = pa, pt
			}
		} else {
			v := se.eval(e.X, nil)
			if v.Loc != nil {
				return placeAddr{}, nil, false
			}
			if derefType(v.T) == nil {
				return placeAddr{}, nil, false
			}
			base = placeAddr{ptrAddr(v), not(eq(v.L[0], "0"))}
			se.noteDeref(base.nonnil)
			bt = derefType(v.T)
		}
		if _, ok := bt.Underlying().(*types.Struct); !ok {
			return placeAddr{}, nil, false
		}
		fi, ok := se.findField(bt, e.Name)
		if !ok {
			sgone("no field %s in %s", e.Name, bt)
		}
		na := base.plusSub(fi.Off)
		if _, named := bt.(*types.Named); named {
			na.Via = append(append([]viaTag(nil), na.Via...), viaTag{bt, fi.Off})
		}
		return placeAddr{na, base.nonnil}, fi.T, true
	case SIndex:
		if id, ok := e.I.(SIdent); ok && id.Name == "*" {
			return placeAddr{}, nil, false
		}
		var xv Val
		if placeLike(e.X) {
			pa, pt, ok := se.place(e.X)
			if !ok {
				return placeAddr{}, nil, false
			}
			if arr, ok := pt.Underlying().(*types.Array); ok {
				i := se.idx(e.I)
				if f.l.cells(arr.Elem()) == 1 {
					return placeAddr{Addr{Ref: pa.Ref, Idx: pa.Idx, Sub: bvadd(pa.Sub, i)}, ""}, arr.Elem(), true
				}
				return placeAddr{Addr{Ref: pa.Ref, Idx: bvadd(pa.Idx, i), Sub: pa.Sub}, ""}, arr.Elem(), true
			}
			xv = se.loadPlace(pt, pa)
		} else {
			xv = se.eval(e.X, nil)
		}
		switch u := xv.T.Underlying().(type) {
		case *types.Slice:
			i := se.idx(e.I)
			return placeAddr{f.elemAddr(Addr{Ref: xv.L[0], Idx: xv.L[1], Sub: xv.L[2]}, u.Elem(), i), ""}, u.Elem(), true
		case *types.Pointer:
			if arr, ok := u.Elem().Underlying().(*types.Array); ok {
				i := se.idx(e.I)
				if f.l.cells(arr.Elem()) == 1 {
					return placeAddr{Addr{Ref: xv.L[0], Idx: xv.L[1], Sub: bvadd(xv.L[2], i)}, ""}, arr.Elem(), true
				}
				return placeAddr{Addr{Ref: xv.L[0], Idx: bvadd(xv.L[1], i), Sub: xv.L[2]}, ""}, arr.Elem(), true
			}
		}
		return placeAddr{}, nil, false
	case SDeref:
		p := se.eval(e.X, nil)
		if derefType(p.T) == nil || p.Loc != nil {
			return placeAddr{}, nil, false
		}
		return placeAddr{ptrAddr(p), not(eq(p.L[0], "0"))}, derefType(p.T), true
	}
	return placeAddr{}, nil, false
}

// lookupVar reports whether name is bound as a variable in this environment.
func (se *SpecEnv) lookupVar(name string) (Val, bool) {
	if v, ok := se.vars[name]; ok {
		return v, true
	}
	if se.inOld {
		if v, ok := se.oldVars[name]; ok {
			return v, true
		}
	}
	if name == "result" || strings.HasPrefix(name, "result") {
		return Val{}, true
	}
	for _, rn := range se.resName {
		if rn == name {
			return Val{}, true
		}
	}
	if se.locals != nil {
		if v, ok := se.locals(name, se.state()); ok {
			return v, true
		}
	}
	if se.pkg != nil {
		if _, ok := se.pkg.Scope().Lookup(name).(*types.Var); ok {
			return Val{}, true
		}
	}
	return Val{}, false
}
