package main

import (
	"fmt"
	"go/types"

	"golang.org/x/tools/go/ssa"
)

// State is the symbolic machine state at a program point.
type State struct {
	locals map[*ssa.Alloc][]string // leaves of non-escaping local cells
	heaps  map[string]string       // leaf sort -> heap term
	alloc  string                  // allocation counter (Int)
	defers []deferRec
	epoch  int // bumped at every wholesale havoc; names lazily created heaps
}

type deferRec struct {
	active string // Bool term: was this defer executed
	call   *ssa.Defer
	args   []Val
	fnv    *Val
	frame  *Frame
}

func (s *State) clone() *State {
	n := &State{locals: make(map[*ssa.Alloc][]string, len(s.locals)), heaps: make(map[string]string, len(s.heaps)), alloc: s.alloc, epoch: s.epoch}
	for k, v := range s.locals {
		n.locals[k] = v // leaf slices are replaced, never mutated in place
	}
	for k, v := range s.heaps {
		n.heaps[k] = v
	}
	n.defers = append([]deferRec(nil), s.defers...)
	return n
}

type Addr struct{ Ref, Idx, Sub string }

func ptrAddr(v Val) Addr { return Addr{v.L[0], v.L[1], v.L[2]} }

func (a Addr) plusSub(k int) Addr {
	if k == 0 {
		return a
	}
	return Addr{a.Ref, a.Idx, bvadd(a.Sub, bv64(int64(k)))}
}

func bvadd(a, b string) string {
	if b == "(_ bv0 64)" {
		return a
	}
	if a == "(_ bv0 64)" {
		return b
	}
	return "(bvadd " + a + " " + b + ")"
}

// Enc carries what heap operations need: naming context and layout.
type Enc struct {
	c        *Ctx
	l        *Layout
	objTypes *ObjTypes
	ixWrap   bool
}

// ObjTypes gives every object an allocation-type tag so that type-safe
// separation facts are available: a slice of multi-cell elements E always
// points into an array allocation of E, and a *T can point into such an
// allocation only if E contains a T.  (DESIGN 2.4, "typed objects".)
type ObjTypes struct {
	elems []types.Type // listed multi-cell element types
	keys  map[string]int
}

func (o *ObjTypes) tagOf(t types.Type) (string, bool) {
	if i, ok := o.keys[types.TypeString(t, nil)]; ok {
		return fmt.Sprint(1000 + i), true
	}
	return "", false
}

// ptrFact constrains the allocation type of the object a *T points into.
func (o *ObjTypes) ptrFact(l *Layout, t types.Type, ref string) string {
	alts := []string{"(< (objtype " + ref + ") 1000)"}
	for i, e := range o.elems {
		if containsType(e, t, 0) {
			alts = append(alts, eq("(objtype "+ref+")", fmt.Sprint(1000+i)))
		}
	}
	return or(alts...)
}

func containsType(outer, inner types.Type, depth int) bool {
	if types.Identical(outer, inner) {
		return true
	}
	if depth > 8 {
		return true // be conservative
	}
	switch u := outer.Underlying().(type) {
	case *types.Struct:
		for i := 0; i < u.NumFields(); i++ {
			if containsType(u.Field(i).Type(), inner, depth+1) {
				return true
			}
		}
	case *types.Array:
		return containsType(u.Elem(), inner, depth+1)
	}
	return false
}

func (e *Enc) heap(s *State, sort string) string {
	h, ok := s.heaps[sort]
	if !ok {
		panic("no heap for " + sort)
	}
	return h
}

func (e *Enc) loadLeaf(s *State, sort string, a Addr) string {
	return sel(sel(sel(e.heap(s, sort), a.Ref), a.Idx), a.Sub)
}

func (e *Enc) storeLeaf(s *State, sort string, a Addr, v string) {
	h := e.heap(s, sort)
	mid := sel(h, a.Ref)
	inner := sel(mid, a.Idx)
	nh := sto(h, a.Ref, sto(mid, a.Idx, sto(inner, a.Sub, v)))
	s.heaps[sort] = e.c.define("H"+className(sort), heapSort(sort), nh)
}

// load reads a value of type t at address a.
func (e *Enc) load(s *State, t types.Type, a Addr) Val {
	sorts := e.l.leafSorts(t)
	out := Val{T: t, L: make([]string, len(sorts))}
	for k, so := range sorts {
		out.L[k] = e.c.define("ld", so, e.loadLeaf(s, so, a.plusSub(k)))
	}
	return out
}

// store writes v at address a.
func (e *Enc) store(s *State, a Addr, v Val) {
	sorts := e.l.leafSorts(v.T)
	if len(sorts) != len(v.L) {
		panic(fmt.Sprintf("store: %d sorts vs %d leaves for %s", len(sorts), len(v.L), v.T))
	}
	// group by class so each heap is rebuilt once
	byClass := map[string][]int{}
	var order []string
	for k, so := range sorts {
		if _, ok := byClass[so]; !ok {
			order = append(order, so)
		}
		byClass[so] = append(byClass[so], k)
	}
	for _, so := range order {
		h := e.heap(s, so)
		mid := e.c.define("mid", midSort(so), sel(h, a.Ref))
		inner := sel(mid, a.Idx)
		for _, k := range byClass[so] {
			inner = sto(inner, a.plusSub(k).Sub, v.L[k])
		}
		s.heaps[so] = e.c.define("H"+className(so), heapSort(so), sto(h, a.Ref, sto(mid, a.Idx, inner)))
	}
}

// zero returns the zero value of t.
func (e *Enc) zero(t types.Type) Val {
	sorts := e.l.leafSorts(t)
	out := Val{T: t, L: make([]string, len(sorts))}
	for k, so := range sorts {
		out.L[k] = zeroOf(so)
	}
	return out
}

// freshVal returns an unconstrained value of type t.
func (e *Enc) freshVal(hint string, t types.Type) Val {
	sorts := e.l.leafSorts(t)
	out := Val{T: t, L: make([]string, len(sorts))}
	for k, so := range sorts {
		out.L[k] = e.c.fresh(hint, so)
	}
	return out
}

// allocObj returns a fresh object reference and bumps the counter.  elem is
// the element type when the object is an array allocation (make, append,
// new [N]T), nil otherwise; it fixes the allocation-type tag.
func (e *Enc) allocObj(s *State, elem types.Type, guard string) string {
	r := s.alloc
	s.alloc = e.c.define("alloc", SInt, "(+ "+s.alloc+" 1)")
	if e.objTypes != nil {
		tag := ""
		if elem != nil {
			if t, ok := e.objTypes.tagOf(elem); ok {
				tag = t
			}
		}
		if tag != "" {
			e.c.assume(guard, eq("(objtype "+r+")", tag))
		} else {
			e.c.assume(guard, "(< (objtype "+r+") 1000)")
		}
	}
	return r
}

// zeroObject makes every cell of object ref zero in the heaps of the
// given classes.
func (e *Enc) zeroObject(s *State, ref string, classes []string) {
	for _, so := range classes {
		h := e.heap(s, so)
		z := fmt.Sprintf("((as const %s) ((as const %s) %s))", midSort(so), innerSort(so), zeroOf(so))
		s.heaps[so] = e.c.define("H"+className(so), heapSort(so), sto(h, ref, z))
	}
}

// wf returns the well-formedness facts every Go value of type t satisfies
// (valid slice headers, allocated references, string lengths).  These are
// run-time invariants of Go, so assuming them at loads, parameters and call
// results is sound.
func (e *Enc) wf(s *State, v Val) string {
	var fs []string
	e.wfInto(s, v.T, v.L, &fs, 0)
	return and(fs...)
}

const maxLen = int64(1) << 48 // Go's maxAlloc on linux/amd64

func (e *Enc) wfInto(s *State, t types.Type, L []string, fs *[]string, depth int) int {
	switch u := t.Underlying().(type) {
	case *types.Basic:
		if basicSort(u) == SStr {
			*fs = append(*fs, "(bvult (slen "+L[0]+") "+bv64(maxLen)+")")
		}
		return 1
	case *types.Pointer:
		*fs = append(*fs, "(<= 0 "+L[0]+")", "(< "+L[0]+" "+s.alloc+")", "(bvult "+L[1]+" "+bv64(maxLen)+")", "(bvult "+L[2]+" "+bv64(maxLen)+")")
		if e.objTypes != nil {
			*fs = append(*fs, e.objTypes.ptrFact(e.l, u.Elem(), L[0]))
		}
		return 3
	case *types.Slice:
		*fs = append(*fs, "(<= 0 "+L[0]+")", "(< "+L[0]+" "+s.alloc+")",
			"(bvule "+L[3]+" "+L[4]+")", "(bvult "+L[4]+" "+bv64(maxLen)+")",
			implies(eq(L[0], "0"), eq(L[4], bv64(0))))
		if !e.l.oneCell(u.Elem()) {
			*fs = append(*fs, eq(L[2], bv64(0)), "(bvult "+L[1]+" "+bv64(maxLen)+")")
			if e.objTypes != nil {
				if tag, ok := e.objTypes.tagOf(u.Elem()); ok {
					*fs = append(*fs, implies(not(eq(L[0], "0")), eq("(objtype "+L[0]+")", tag)))
				}
			}
		} else {
			*fs = append(*fs, "(bvult "+L[2]+" "+bv64(maxLen)+")")
		}
		return 5
	case *types.Map, *types.Chan, *types.Signature:
		*fs = append(*fs, "(<= 0 "+L[0]+")", "(< "+L[0]+" "+s.alloc+")")
		return 1
	case *types.Interface:
		*fs = append(*fs, "(<= 0 "+L[0]+")", "(<= 0 "+L[1]+")", "(< "+L[1]+" "+s.alloc+")")
		return 4
	case *types.Struct:
		n := 0
		for _, f := range e.l.structFields(t) {
			n += e.wfInto(s, f.T, L[n:], fs, depth+1)
		}
		return n
	case *types.Array:
		n := 0
		ec := e.l.cells(u.Elem())
		simple := false
		if b, ok := u.Elem().Underlying().(*types.Basic); ok && basicSort(b) != SStr {
			simple = true
		}
		for i := int64(0); i < u.Len(); i++ {
			if simple {
				n += ec
			} else {
				n += e.wfInto(s, u.Elem(), L[n:], fs, depth+1)
			}
		}
		return n
	case *types.Tuple:
		n := 0
		for i := 0; i < u.Len(); i++ {
			n += e.wfInto(s, u.At(i).Type(), L[n:], fs, depth+1)
		}
		return n
	}
	return e.l.cells(t)
}
