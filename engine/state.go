package main

import (
	"fmt"
	"go/types"
	"strings"

	"golang.org/x/tools/go/ssa"
)

// State is the symbolic machine state at a program point.
type State struct {
	locals map[*ssa.Alloc][]string // leaves of non-escaping local cells
	heaps  map[string]string       // leaf sort -> heap term
	alloc  string                  // allocation counter (Int)
	defers []deferRec
	epoch  int // bumped at every wholesale havoc; names lazily created heaps
	gepoch int // same for ghost integers (survive `modifies *` contracts)
	// write log per leaf class: pending single-cell stores on top of
	// heaps[class] (the base).  The heap denoted is base with the log applied
	// in order; keeping stores at cell level avoids ite terms over whole
	// arrays at control-flow joins (they force array extensionality).
	log map[string][]logEntry
	mat map[string]string // cache: materialised heap term per class
}

type logEntry struct {
	a Addr
	v string
}

// setHeap replaces the heap of a class by a fully materialised term.
func setHeap(s *State, class, term string) {
	s.heaps[class] = term
	if s.log != nil {
		delete(s.log, class)
	}
	if s.mat != nil {
		delete(s.mat, class)
	}
}

type deferRec struct {
	active string // Bool term: was this defer executed
	call   *ssa.Defer
	args   []Val
	fnv    *Val
	frame  *Frame
}

func (s *State) clone() *State {
	n := &State{locals: make(map[*ssa.Alloc][]string, len(s.locals)), heaps: make(map[string]string, len(s.heaps)), alloc: s.alloc, epoch: s.epoch, gepoch: s.gepoch}
	for k, v := range s.locals {
		n.locals[k] = v // leaf slices are replaced, never mutated in place
	}
	for k, v := range s.heaps {
		n.heaps[k] = v
	}
	n.defers = append([]deferRec(nil), s.defers...)
	if len(s.log) > 0 {
		n.log = make(map[string][]logEntry, len(s.log))
		for k, v := range s.log {
			n.log[k] = v // entries are appended copy-on-write
		}
	}
	if len(s.mat) > 0 {
		n.mat = make(map[string]string, len(s.mat))
		for k, v := range s.mat {
			n.mat[k] = v
		}
	}
	return n
}

type Addr struct {
	Ref, Idx, Sub string
	// Via describes how the access reaches the cell: "leaf offset off of an
	// object of struct type T".  Several descriptors may hold at once (nested
	// structs).  Used only to decide at generation time that two accesses
	// cannot touch the same cell (Go type safety: objects of different struct
	// types overlap only if one contains the other; different leaf offsets of
	// the same struct type are different cells).
	Via []viaTag
}

type viaTag struct {
	T   types.Type
	Off int
}

func ptrAddr(v Val) Addr { return Addr{Ref: v.L[0], Idx: v.L[1], Sub: v.L[2], Via: v.Via} }

func (a Addr) plusSub(k int) Addr {
	if k == 0 {
		return a
	}
	var via []viaTag
	for _, v := range a.Via {
		via = append(via, viaTag{v.T, v.Off + k})
	}
	return Addr{Ref: a.Ref, Idx: a.Idx, Sub: bvadd(a.Sub, bv64(int64(k))), Via: via}
}

// viaDistinct reports whether the descriptors prove that the two cells differ.
func viaDistinct(a, b Addr) bool {
	for _, x := range a.Via {
		for _, y := range b.Via {
			if types.Identical(x.T, y.T) {
				if x.Off != y.Off {
					return true
				}
				continue
			}
			if !containsType(x.T, y.T, 0) && !containsType(y.T, x.T, 0) {
				return true
			}
		}
	}
	return false
}

func bvadd(a, b string) string {
	if b == "(_ bv0 64)" {
		return a
	}
	if a == "(_ bv0 64)" {
		return b
	}
	return "(bvadd " + a + " " + b + ")"
}

// Enc carries what heap operations need: naming context and layout.
type Enc struct {
	c         *Ctx
	l         *Layout
	objTypes  *ObjTypes
	ixWrap    bool
	allocType types.Type // type of the struct object being allocated (set before allocObj)
	onWrite   func(w writeRec)
}

// writeRec describes one heap update performed by the function (for the
// frame check: every write must stay inside the modifies clause or touch an
// object allocated by the function itself).
type writeRec struct {
	Class string
	Kind  string // cell, subrange, idxrange, object, all
	Ref   string
	Idx   string // cell/subrange: the element; idxrange: low bound
	IdxHi string
	Sub   string // cell: the cell; subrange: low bound
	SubHi string
	Guard string
	What  string
	Block any // *ssa.BasicBlock in which the write happens
	Frame any // *Frame
}

func (e *Enc) noteWrite(w writeRec) {
	if e.onWrite != nil {
		e.onWrite(w)
	}
}

// ObjTypes gives every object an allocation-type tag so that type-safe
// separation facts are available: a slice of multi-cell elements E always
// points into an array allocation of E, and a *T can point into such an
// allocation only if E contains a T.  (DESIGN 2.4, "typed objects".)
type ObjTypes struct {
	elems   []types.Type // listed multi-cell element types (array allocations, tags 1000+i)
	keys    map[string]int
	structs []types.Type // named struct types of the repository (struct allocations, tags 100000+i)
	skeys   map[string]int
	memo    map[string]string
}

// structTag is the allocation tag of a named struct type of the repository.
func (o *ObjTypes) structTag(t types.Type) (string, bool) {
	if i, ok := o.skeys[types.TypeString(t, nil)]; ok {
		return fmt.Sprint(100000 + i), true
	}
	return "", false
}

// allocTag is the tag of an object allocated with type t (array element type
// elem for array allocations).
func (o *ObjTypes) allocTag(t types.Type, elem types.Type) (string, bool) {
	if elem != nil {
		if tag, ok := o.tagOf(elem); ok {
			return tag, true
		}
		return "", false
	}
	if t != nil {
		return o.structTag(t)
	}
	return "", false
}

func (o *ObjTypes) tagOf(t types.Type) (string, bool) {
	if i, ok := o.keys[types.TypeString(t, nil)]; ok {
		return fmt.Sprint(1000 + i), true
	}
	return "", false
}

// ptrFact constrains the allocation type of the object a *T points into.
func (o *ObjTypes) ptrFact(l *Layout, t types.Type, ref string) string {
	key := types.TypeString(t, nil)
	if o.memo == nil {
		o.memo = map[string]string{}
	}
	tmpl, ok := o.memo[key]
	if !ok {
		var alts []string
		// objects of unlisted allocation types (tag < 1000) can hold a T only
		// if T is not itself a listed struct type of the repository
		if _, listed := o.skeys[key]; !listed {
			alts = append(alts, "(< (objtype @) 1000)")
		}
		for i, e := range o.elems {
			if e != nil && containsType(e, t, 0) {
				alts = append(alts, eq("(objtype @)", fmt.Sprint(1000+i)))
			}
		}
		for i, st := range o.structs {
			if containsType(st, t, 0) {
				alts = append(alts, eq("(objtype @)", fmt.Sprint(100000+i)))
			}
		}
		tmpl = or(alts...)
		o.memo[key] = tmpl
	}
	return strings.ReplaceAll(tmpl, "@", ref)
}

// scalarSliceFact constrains the allocation type of the object a []E (E a
// one-cell type) points into.
func (o *ObjTypes) scalarSliceFact(elem types.Type, ref string) string {
	key := "[]" + types.TypeString(elem, nil)
	if o.memo == nil {
		o.memo = map[string]string{}
	}
	tmpl, ok := o.memo[key]
	if !ok {
		alts := []string{"(< (objtype @) 1000)"}
		for i, e := range o.elems {
			if e != nil && containsArrayOf(e, elem, 0) {
				alts = append(alts, eq("(objtype @)", fmt.Sprint(1000+i)))
			}
		}
		for i, st := range o.structs {
			if containsArrayOf(st, elem, 0) {
				alts = append(alts, eq("(objtype @)", fmt.Sprint(100000+i)))
			}
		}
		tmpl = or(alts...)
		o.memo[key] = tmpl
	}
	return strings.ReplaceAll(tmpl, "@", ref)
}

// ifaceFact: the object an interface value of a repository interface type I
// refers to cannot be an object of a repository struct type S none of whose
// parts implements I (the dynamic type of the value implements I, and the
// object holding the value's referent contains a value of that type).
func (o *ObjTypes) ifaceFact(t types.Type, ref string) string {
	named, ok := t.(*types.Named)
	if !ok || named.Obj().Pkg() == nil || !strings.HasPrefix(named.Obj().Pkg().Path(), modPath) {
		return ""
	}
	it, ok := t.Underlying().(*types.Interface)
	if !ok || it.NumMethods() == 0 {
		return ""
	}
	key := "iface:" + types.TypeString(t, nil)
	if o.memo == nil {
		o.memo = map[string]string{}
	}
	tmpl, ok := o.memo[key]
	if !ok {
		var cs []string
		for i, st := range o.structs {
			if !partImplements(st, it, 0) {
				cs = append(cs, not(eq("(objtype @)", fmt.Sprint(100000+i))))
			}
		}
		for i, e := range o.elems {
			if e != nil && !partImplements(e, it, 0) {
				cs = append(cs, not(eq("(objtype @)", fmt.Sprint(1000+i))))
			}
		}
		// an interface whose methods mention types of the repository can only
		// be implemented by types of the repository: the object is one of
		// the listed struct or array allocations (or nil)
		if mentionsRepoType(it) {
			cs = append(cs, or(eq("@", "0"), "(>= (objtype @) 1000)"))
		}
		tmpl = and(cs...)
		o.memo[key] = tmpl
	}
	if tmpl == "true" {
		return ""
	}
	return strings.ReplaceAll(tmpl, "@", ref)
}

func mentionsRepoType(it *types.Interface) bool {
	var walk func(t types.Type, d int) bool
	walk = func(t types.Type, d int) bool {
		if d > 4 {
			return false
		}
		switch u := t.(type) {
		case *types.Named:
			if u.Obj().Pkg() != nil && strings.HasPrefix(u.Obj().Pkg().Path(), modPath) {
				return true
			}
		case *types.Pointer:
			return walk(u.Elem(), d+1)
		case *types.Slice:
			return walk(u.Elem(), d+1)
		case *types.Map:
			return walk(u.Key(), d+1) || walk(u.Elem(), d+1)
		}
		return false
	}
	for i := 0; i < it.NumMethods(); i++ {
		sig := it.Method(i).Type().(*types.Signature)
		for j := 0; j < sig.Params().Len(); j++ {
			if walk(sig.Params().At(j).Type(), 0) {
				return true
			}
		}
		for j := 0; j < sig.Results().Len(); j++ {
			if walk(sig.Results().At(j).Type(), 0) {
				return true
			}
		}
	}
	return false
}

// partImplements: some value contained in a T (T itself included) has a type
// whose value or pointer implements the interface.
func partImplements(t types.Type, it *types.Interface, depth int) bool {
	if depth > 8 {
		return true
	}
	if types.Implements(t, it) || types.Implements(types.NewPointer(t), it) {
		return true
	}
	switch u := t.Underlying().(type) {
	case *types.Struct:
		for i := 0; i < u.NumFields(); i++ {
			if partImplements(u.Field(i).Type(), it, depth+1) {
				return true
			}
		}
	case *types.Array:
		return partImplements(u.Elem(), it, depth+1)
	}
	return false
}

func containsArrayOf(outer, elem types.Type, depth int) bool {
	if depth > 8 {
		return true
	}
	switch u := outer.Underlying().(type) {
	case *types.Struct:
		for i := 0; i < u.NumFields(); i++ {
			if containsArrayOf(u.Field(i).Type(), elem, depth+1) {
				return true
			}
		}
	case *types.Array:
		if types.Identical(u.Elem().Underlying(), elem.Underlying()) {
			return true
		}
		return containsArrayOf(u.Elem(), elem, depth+1)
	}
	return false
}

func containsType(outer, inner types.Type, depth int) bool {
	if types.Identical(outer, inner) {
		return true
	}
	if depth > 8 {
		return true // be conservative
	}
	switch u := outer.Underlying().(type) {
	case *types.Struct:
		for i := 0; i < u.NumFields(); i++ {
			if containsType(u.Field(i).Type(), inner, depth+1) {
				return true
			}
		}
	case *types.Array:
		return containsType(u.Elem(), inner, depth+1)
	}
	return false
}

// heap returns the (materialised) heap term of a class.
func (e *Enc) heap(s *State, sort string) string {
	h, ok := s.heaps[sort]
	if !ok {
		panic("no heap for " + sort)
	}
	lg := s.log[sort]
	if len(lg) == 0 {
		return h
	}
	if m, ok := s.mat[sort]; ok {
		return m
	}
	m := e.applyLog(sort, h, lg)
	if s.mat == nil {
		s.mat = map[string]string{}
	}
	s.mat[sort] = m
	return m
}

// applyLog builds base with the logged stores applied in order.
func (e *Enc) applyLog(sort, base string, lg []logEntry) string {
	h := base
	for _, en := range lg {
		mid := e.c.define("mid", midSort(sort), sel(h, en.a.Ref))
		inner := sel(mid, en.a.Idx)
		h = e.c.define("H"+className(sort), heapSort(sort), sto(h, en.a.Ref, sto(mid, en.a.Idx, sto(inner, en.a.Sub, en.v))))
	}
	return h
}

// subParts splits a sub-address term into (base, constant offset).
func subParts(t string) (string, int64, bool) {
	if strings.HasPrefix(t, "(_ bv") {
		var n int64
		if _, err := fmt.Sscanf(t, "(_ bv%d 64)", &n); err == nil {
			return "", n, true
		}
	}
	if strings.HasPrefix(t, "(bvadd ") && strings.HasSuffix(t, " 64))") {
		i := strings.LastIndex(t, " (_ bv")
		if i > 0 {
			var n int64
			if _, err := fmt.Sscanf(t[i+1:], "(_ bv%d 64))", &n); err == nil {
				return t[len("(bvadd "):i], n, true
			}
		}
	}
	return t, 0, true
}

// distinctAddr reports whether two addresses are certainly different cells
// (same object and element, different constant offsets from the same base).
func distinctAddr(a, b Addr) bool {
	if viaDistinct(a, b) {
		return true
	}
	if a.Ref != b.Ref || a.Idx != b.Idx {
		return false
	}
	ab, ao, ok1 := subParts(a.Sub)
	bb, bo, ok2 := subParts(b.Sub)
	return ok1 && ok2 && ab == bb && ao != bo
}

func sameAddr(a, b Addr) bool { return a.Ref == b.Ref && a.Idx == b.Idx && a.Sub == b.Sub }

// logStore records a single-cell store.
func (e *Enc) logStore(s *State, sort string, a Addr, v string) {
	e.noteWrite(writeRec{Class: sort, Kind: "cell", Ref: a.Ref, Idx: a.Idx, Sub: a.Sub})
	if s.log == nil {
		s.log = map[string][]logEntry{}
	}
	old := s.log[sort]
	if len(old) >= 48 {
		// keep logs bounded: fold into the base
		setHeap(s, sort, e.applyLog(sort, s.heaps[sort], old))
		old = nil
		if s.log == nil {
			s.log = map[string][]logEntry{}
		}
	}
	nl := make([]logEntry, 0, len(old)+1)
	// an earlier store to the same cell is dead if everything after it is
	// certainly a different cell
	drop := -1
	for i := len(old) - 1; i >= 0; i-- {
		if sameAddr(old[i].a, a) {
			drop = i
			break
		}
		if !distinctAddr(old[i].a, a) {
			break
		}
	}
	for i, en := range old {
		if i != drop {
			nl = append(nl, en)
		}
	}
	nl = append(nl, logEntry{a, v})
	s.log[sort] = nl
	if s.mat != nil {
		delete(s.mat, sort)
	}
}

// logLoad reads a cell through the log.
func (e *Enc) logLoad(s *State, sort string, a Addr) string {
	lg := s.log[sort]
	// entries that may touch the cell, oldest first; everything before a
	// store to exactly this cell is irrelevant
	var rel []logEntry
	for i := len(lg) - 1; i >= 0; i-- {
		if sameAddr(lg[i].a, a) {
			rel = append(rel, lg[i])
			break
		}
		if !distinctAddr(lg[i].a, a) {
			rel = append(rel, lg[i])
		}
	}
	if len(rel) == 0 {
		return sel(sel(sel(s.heaps[sort], a.Ref), a.Idx), a.Sub)
	}
	if len(rel) == 1 && sameAddr(rel[0].a, a) {
		return rel[0].v
	}
	// value = the newest possibly-aliasing store that hits the cell, else
	// what is below: an ite chain over address equality (no array terms)
	var t string
	last := rel[len(rel)-1]
	if sameAddr(last.a, a) {
		t = last.v
		rel = rel[:len(rel)-1]
	} else {
		t = sel(sel(sel(s.heaps[sort], a.Ref), a.Idx), a.Sub)
	}
	for i := len(rel) - 1; i >= 0; i-- {
		en := rel[i]
		hit := and(eq(en.a.Ref, a.Ref), eq(en.a.Idx, a.Idx), eq(en.a.Sub, a.Sub))
		t = ite(hit, en.v, t)
	}
	return t
}

func (e *Enc) loadLeaf(s *State, sort string, a Addr) string {
	return e.logLoad(s, sort, a)
}

func (e *Enc) storeLeaf(s *State, sort string, a Addr, v string) {
	e.logStore(s, sort, a, v)
}

// load reads a value of type t at address a.
func (e *Enc) load(s *State, t types.Type, a Addr) Val {
	sorts := e.l.leafSorts(t)
	out := Val{T: t, L: make([]string, len(sorts))}
	for k, so := range sorts {
		out.L[k] = e.c.define("ld", so, e.loadLeaf(s, so, a.plusSub(k)))
	}
	return out
}

// store writes v at address a.
func (e *Enc) store(s *State, a Addr, v Val) {
	sorts := e.l.leafSorts(v.T)
	if len(sorts) != len(v.L) {
		panic(fmt.Sprintf("store: %d sorts vs %d leaves for %s", len(sorts), len(v.L), v.T))
	}
	for k, so := range sorts {
		e.logStore(s, so, a.plusSub(k), v.L[k])
	}
}

// zero returns the zero value of t.
func (e *Enc) zero(t types.Type) Val {
	sorts := e.l.leafSorts(t)
	out := Val{T: t, L: make([]string, len(sorts))}
	for k, so := range sorts {
		out.L[k] = zeroOf(so)
	}
	return out
}

// freshVal returns an unconstrained value of type t.
func (e *Enc) freshVal(hint string, t types.Type) Val {
	sorts := e.l.leafSorts(t)
	out := Val{T: t, L: make([]string, len(sorts))}
	for k, so := range sorts {
		out.L[k] = e.c.fresh(hint, so)
	}
	return out
}

// allocObj returns a fresh object reference and bumps the counter.  elem is
// the element type when the object is an array allocation (make, append,
// new [N]T), nil otherwise; it fixes the allocation-type tag.
func (e *Enc) allocObj(s *State, elem types.Type, guard string) string {
	r := s.alloc
	s.alloc = e.c.define("alloc", SInt, "(+ "+s.alloc+" 1)")
	if e.objTypes != nil {
		tag := ""
		if t, ok := e.objTypes.allocTag(e.allocType, elem); ok {
			tag = t
		}
		e.allocType = nil
		if tag != "" {
			e.c.assume(guard, eq("(objtype "+r+")", tag))
		} else {
			e.c.assume(guard, "(< (objtype "+r+") 1000)")
		}
	}
	return r
}

// zeroMid is the all-zero contents of an object for a leaf class.  For the
// uninterpreted string sort a constant array is not expressible in every
// solver (cvc5 wants a value), so a declared array with a defining axiom is
// used instead.
func (e *Enc) zeroMid(so string) string {
	if so != SStr {
		return fmt.Sprintf("((as const %s) ((as const %s) %s))", midSort(so), innerSort(so), zeroOf(so))
	}
	if !e.c.ufs["zero_mid_Str"] {
		e.c.ufs["zero_mid_Str"] = true
		e.c.raw("(declare-const zero_mid_Str " + midSort(so) + ")")
		e.c.raw("(assert (forall ((i!q (_ BitVec 64)) (s!q (_ BitVec 64))) (! (= (select (select zero_mid_Str i!q) s!q) str_empty) :pattern ((select (select zero_mid_Str i!q) s!q)))))")
	}
	return "zero_mid_Str"
}

func (e *Enc) zeroInner(so string) string {
	if so != SStr {
		return fmt.Sprintf("((as const %s) %s)", innerSort(so), zeroOf(so))
	}
	return "(select " + e.zeroMid(so) + " (_ bv0 64))"
}

// zeroObject makes every cell of object ref zero in the heaps of the
// given classes.
func (e *Enc) zeroObject(s *State, ref string, classes []string) {
	for _, so := range classes {
		e.noteWrite(writeRec{Class: so, Kind: "object", Ref: ref})
		h := e.heap(s, so)
		z := e.zeroMid(so)
		setHeap(s, so, e.c.define("H"+className(so), heapSort(so), sto(h, ref, z)))
	}
}

// wf returns the well-formedness facts every Go value of type t satisfies
// (valid slice headers, allocated references, string lengths).  These are
// run-time invariants of Go, so assuming them at loads, parameters and call
// results is sound.
func (e *Enc) wf(s *State, v Val) string {
	var fs []string
	e.wfInto(s, v.T, v.L, &fs, 0)
	return and(fs...)
}

const maxLen = int64(1) << 48 // Go's maxAlloc on linux/amd64

func (e *Enc) wfInto(s *State, t types.Type, L []string, fs *[]string, depth int) int {
	switch u := t.Underlying().(type) {
	case *types.Basic:
		if basicSort(u) == SStr {
			*fs = append(*fs, "(bvult (slen "+L[0]+") "+bv64(maxLen)+")")
		}
		return 1
	case *types.Pointer:
		*fs = append(*fs, "(<= 0 "+L[0]+")", "(< "+L[0]+" "+s.alloc+")", "(bvult "+L[1]+" "+bv64(maxLen)+")", "(bvult "+L[2]+" "+bv64(maxLen)+")")
		if e.objTypes != nil {
			// (the nil pointer points into no object: objtype(0) is left unconstrained)
			*fs = append(*fs, or(eq(L[0], "0"), e.objTypes.ptrFact(e.l, u.Elem(), L[0])))
			// a *T into an object allocated AS a T points at its start
			if tag, ok := e.objTypes.structTag(u.Elem()); ok {
				*fs = append(*fs, implies(eq("(objtype "+L[0]+")", tag), and(eq(L[1], bv64(0)), eq(L[2], bv64(0)))))
			}
		}
		return 3
	case *types.Slice:
		*fs = append(*fs, "(<= 0 "+L[0]+")", "(< "+L[0]+" "+s.alloc+")",
			"(bvule "+L[3]+" "+L[4]+")", "(bvult "+L[4]+" "+bv64(maxLen)+")",
			implies(eq(L[0], "0"), eq(L[4], bv64(0))))
		if e.l.oneCell(u.Elem()) && e.objTypes != nil {
			// a slice of scalars points into a scalar array allocation or
			// into an array field of a struct: never into a struct of the
			// repository that has no such array
			*fs = append(*fs, or(eq(L[0], "0"), e.objTypes.scalarSliceFact(u.Elem(), L[0])))
		}
		if !e.l.oneCell(u.Elem()) {
			*fs = append(*fs, eq(L[2], bv64(0)), "(bvult "+L[1]+" "+bv64(maxLen)+")")
			if e.objTypes != nil {
				if tag, ok := e.objTypes.tagOf(u.Elem()); ok {
					*fs = append(*fs, implies(not(eq(L[0], "0")), eq("(objtype "+L[0]+")", tag)))
				}
			}
		} else {
			*fs = append(*fs, "(bvult "+L[2]+" "+bv64(maxLen)+")")
		}
		return 5
	case *types.Map, *types.Chan, *types.Signature:
		*fs = append(*fs, "(<= 0 "+L[0]+")", "(< "+L[0]+" "+s.alloc+")")
		return 1
	case *types.Interface:
		*fs = append(*fs, "(<= 0 "+L[0]+")", "(<= 0 "+L[1]+")", "(< "+L[1]+" "+s.alloc+")")
		if e.objTypes != nil {
			if fact := e.objTypes.ifaceFact(t, L[1]); fact != "" {
				*fs = append(*fs, fact)
			}
		}
		return 4
	case *types.Struct:
		n := 0
		for _, f := range e.l.structFields(t) {
			n += e.wfInto(s, f.T, L[n:], fs, depth+1)
		}
		return n
	case *types.Array:
		n := 0
		ec := e.l.cells(u.Elem())
		simple := false
		if b, ok := u.Elem().Underlying().(*types.Basic); ok && basicSort(b) != SStr {
			simple = true
		}
		for i := int64(0); i < u.Len(); i++ {
			if simple {
				n += ec
			} else {
				n += e.wfInto(s, u.Elem(), L[n:], fs, depth+1)
			}
		}
		return n
	case *types.Tuple:
		n := 0
		for i := 0; i < u.Len(); i++ {
			n += e.wfInto(s, u.At(i).Type(), L[n:], fs, depth+1)
		}
		return n
	}
	return e.l.cells(t)
}
