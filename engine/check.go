package main

// `gvc check <property> <tier>`: the registered check of one property.

import (
	"encoding/json"
	"flag"
	"fmt"
	"os"
	"path/filepath"
	"regexp"
	"runtime"
	"sort"
	"strconv"
	"strings"
	"sync"
	"time"
)

type Finding struct {
	Kind       string // finding | fixed
	Property   string
	Obligation string // base name (no @retN)
	Witness    string // spec predicate: the witness class
	What       string
	Line       int
	wexpr      SExpr
}

var kvRe = regexp.MustCompile(`(\w+)=("([^"\\]|\\.)*"|\S+)`)

func loadFindings(path string) ([]*Finding, error) {
	b, err := os.ReadFile(path)
	if err != nil {
		if os.IsNotExist(err) {
			return nil, nil
		}
		return nil, err
	}
	var out []*Finding
	for i, line := range strings.Split(string(b), "\n") {
		line = strings.TrimSpace(line)
		if line == "" || strings.HasPrefix(line, "#") {
			continue
		}
		var f Finding
		switch {
		case strings.HasPrefix(line, "finding:"):
			f.Kind = "finding"
		case strings.HasPrefix(line, "fixed:"):
			f.Kind = "fixed"
		default:
			return nil, fmt.Errorf("%s:%d: line must start with finding: or fixed:", path, i+1)
		}
		f.Line = i + 1
		for _, m := range kvRe.FindAllStringSubmatch(line, -1) {
			v := m[2]
			if strings.HasPrefix(v, "\"") {
				v, _ = strconv.Unquote(v)
			}
			switch m[1] {
			case "property":
				f.Property = v
			case "obligation":
				f.Obligation = v
			case "witness":
				f.Witness = v
			case "what":
				f.What = v
			}
		}
		if f.Kind == "finding" {
			if f.Obligation == "" || f.Property == "" {
				return nil, fmt.Errorf("%s:%d: finding needs property= and obligation=", path, i+1)
			}
			if f.Witness != "" {
				e, err := parseExpr(f.Witness)
				if err != nil {
					return nil, fmt.Errorf("%s:%d: witness: %v", path, i+1, err)
				}
				f.wexpr = e
			}
		}
		out = append(out, &f)
	}
	return out, nil
}

// baseName strips return-site and ordinal suffixes from an obligation name.
var retRe = regexp.MustCompile(`@ret\d+`)
var ordRe = regexp.MustCompile(`#\d+`)
var knownRe = regexp.MustCompile(`\[known:\d+\]`)

func baseName(n string) string {
	n = retRe.ReplaceAllString(n, "")
	n = knownRe.ReplaceAllString(n, "")
	return n
}

func stableName(n string) string {
	return ordRe.ReplaceAllString(baseName(n), "")
}

type propConfig struct {
	Patterns []string // package patterns to load
}

// contractPackages returns the repository packages whose contract file
// mentions the property.
func contractPackages(repo, prop string) []string {
	files, _ := filepath.Glob(filepath.Join(repo, "*", "verif_contracts.go"))
	var out []string
	re := regexp.MustCompile(`\b` + prop + `\b`)
	for _, f := range files {
		b, err := os.ReadFile(f)
		if err != nil {
			continue
		}
		if re.Match(b) {
			out = append(out, "./"+filepath.Base(filepath.Dir(f)))
			// "//@ -- needs-package ./x": packages that must be loaded with this one
			// (e.g. the users of a generic type, whose instantiations the contracts name)
			for _, m := range needsRe.FindAllStringSubmatch(string(b), -1) {
				out = append(out, m[1])
			}
		}
	}
	sort.Strings(out)
	return out
}

var needsRe = regexp.MustCompile(`needs-package (\./\w+)`)

func hasProp(ps []string, p string) bool {
	for _, x := range ps {
		if x == p {
			return true
		}
	}
	return false
}

type Evidence struct {
	PropertyID  string         `json:"property_id"`
	Tier        string         `json:"tier"`
	Seed        int            `json:"seed"`
	Level       string         `json:"level"`
	Coverage    map[string]any `json:"coverage"`
	Assumptions []string       `json:"assumptions"`
	WallS       float64        `json:"wall_s"`
	Violations  int            `json:"violations"`
}

func cmdCheck(args []string) {
	fs := flag.NewFlagSet("check", flag.ExitOnError)
	repo := fs.String("repo", "/repo", "repository")
	verif := fs.String("verif", "/verif", "verif directory")
	tier := fs.String("tier", "quick", "quick|thorough")
	updateExpected := fs.Bool("update-expected", false, "rewrite expected_obligations.json for this property")
	verbose := fs.Bool("v", false, "verbose")
	noEv := fs.Bool("no-evidence", false, "do not write evidence or replay files under the verif directory (selftest runs)")
	fs.Parse(args)
	noEvidence = *noEv
	if fs.NArg() < 1 {
		fmt.Fprintln(os.Stderr, "usage: gvc check [flags] <property>")
		os.Exit(2)
	}
	prop := fs.Arg(0)
	if t := os.Getenv("VERIF_TIER"); t != "" && *tier == "" {
		*tier = t
	}
	seed := 0
	if s := os.Getenv("VERIF_SEED"); s != "" {
		seed, _ = strconv.Atoi(s)
	}
	t0 := time.Now()
	code := runCheck(*repo, *verif, prop, *tier, seed, *updateExpected, *verbose, t0)
	os.Exit(code)
}

var noEvidence bool

func errorExit(prop string, format string, a ...any) int {
	fmt.Printf("ERROR property=%s %s\n", prop, fmt.Sprintf(format, a...))
	return 2
}

func runCheck(repo, verif, prop, tier string, seed int, updateExpected, verbose bool, t0 time.Time) int {
	pkgs := contractPackages(repo, prop)
	if len(pkgs) == 0 {
		return errorExit(prop, "no contract file mentions this property")
	}
	findings, err := loadFindings(filepath.Join(verif, "known_findings.txt"))
	if err != nil {
		return errorExit(prop, "%v", err)
	}
	e, err := load(repo, verif, pkgs)
	if err != nil {
		return errorExit(prop, "%v", err)
	}
	e.findings = findings
	hintPath := filepath.Join(verif, "solver_hints.json")
	if b, err := os.ReadFile(hintPath); err == nil {
		json.Unmarshal(b, &solverHints)
	}
	timeout := 100
	if tier == "thorough" {
		timeout = 300
	}
	// stretch set: obligations reported but never deciding
	stretch := map[string]bool{}
	if b, err := os.ReadFile(filepath.Join(verif, "stretch.txt")); err == nil {
		for _, l := range strings.Split(string(b), "\n") {
			l = strings.TrimSpace(l)
			if l != "" && !strings.HasPrefix(l, "#") {
				fs := strings.Fields(l)
				// "<name> quick": stretch in the quick tier only (claimed in thorough)
				if len(fs) > 1 && fs[1] == "quick" && tier != "quick" {
					continue
				}
				stretch[fs[0]] = true
			}
		}
	}
	var frs []*FnResult
	var fnKeys []string
	var keys []string
	for k := range e.contracts {
		keys = append(keys, k)
	}
	sort.Strings(keys)
	var encodeErrs []string
	for _, k := range keys {
		c := e.contracts[k]
		if c.Trusted || c.Pkg == "" || !hasProp(c.Props, prop) {
			continue
		}
		fn := e.fnByKey[k]
		fr := e.encodeFunction(fn, c)
		if fr.Err != nil {
			encodeErrs = append(encodeErrs, fr.Err.Error())
			continue
		}
		frs = append(frs, fr)
		fnKeys = append(fnKeys, k)
	}
	for _, lm := range e.lemmas {
		if !hasProp(lm.Props, prop) {
			continue
		}
		fr := e.encodeLemma(lm)
		if fr.Err != nil {
			encodeErrs = append(encodeErrs, fr.Err.Error())
			continue
		}
		frs = append(frs, fr)
		fnKeys = append(fnKeys, fr.Key)
	}
	if len(encodeErrs) > 0 {
		return errorExit(prop, "VC generation failed:\n  %s", strings.Join(encodeErrs, "\n  "))
	}
	if len(frs) == 0 {
		return errorExit(prop, "no function under contract for this property")
	}
	tmp := tmpDir()
	defer os.RemoveAll(tmp)
	filter := func(name string) bool { return true }
	// per-clause property tags: an obligation whose clause is tagged for
	// other properties only is skipped
	results := dischargeAll(frs, func(n string) bool { return filter(n) }, runtime.NumCPU(), timeout, tmp)

	// classify
	type viol struct {
		r      ObResult
		replay string
	}
	var viols []viol
	knownHit := map[*Finding]bool{}
	nObl, nDis, nStretch, nStretchOK := 0, 0, 0, 0
	nCover, nCanary, nKnown := 0, 0, 0
	nVacUnknown := 0
	backend := map[string]int{}
	solverSecs := 0.0
	var samples []any
	var stretchList []string
	seenNames := map[string]bool{}
	var vacuous []string
	slowAbove := 0.0
	if v := os.Getenv("GVC_SLOW"); v != "" { // development aid: list the obligations slower than this many seconds
		fmt.Sscanf(v, "%g", &slowAbove)
	}
	for _, r := range results {
		if slowAbove > 0 && r.Seconds > slowAbove && r.Class != "canary" && r.Class != "cover" {
			fmt.Printf("SLOW %6.1fs %-10s %s\n", r.Seconds, r.Solver, r.Name)
		}
		seenNames[stableName(r.Name)] = true
		solverSecs += r.Seconds
		switch r.Class {
		case "cover", "canary":
			if r.Class == "cover" {
				nCover++
			} else {
				nCanary++
			}
			if r.Status == "vacuous" {
				vacuous = append(vacuous, r.Name)
			}
			if r.Status != "sat-ok" {
				nVacUnknown++
			}
			continue
		case "known":
			nKnown++
			if r.Status != "proved" {
				knownHit[r.item.Finding] = true
			}
			continue
		}
		if stretch[baseName(r.Name)] || stretch[stableName(r.Name)] {
			nStretch++
			if r.Status == "proved" {
				nStretchOK++
			}
			stretchList = append(stretchList, fmt.Sprintf("%s: %s", r.Name, r.Status))
			continue
		}
		nObl++
		if r.Status == "proved" {
			nDis++
			backend[r.Solver]++
			if len(samples) < 6 && (nObl%7 == seed%7 || len(samples) == 0) {
				samples = append(samples, map[string]any{"obligation": r.Name, "clause": r.Text, "at": r.Pos, "backend": r.Solver, "seconds": round3(r.Seconds), "smt_bytes": r.QueryLen})
			}
			continue
		}
		viols = append(viols, viol{r: r})
	}
	// contradictory assumptions make everything else meaningless - unless
	// the contradiction comes from a call-site assertion or safety condition
	// of the same function that FAILED (it is assumed downstream of its
	// program point): then the failure is the finding and is reported
	for _, vn := range vacuous {
		fn := vn[:strings.Index(vn, "/")]
		explained := false
		for _, v := range viols {
			if strings.HasPrefix(v.r.Name, fn+"/") {
				explained = true
			}
		}
		if !explained {
			return errorExit(prop, "vacuity guard failed: %s is unsatisfiable (contradictory assumptions)", vn)
		}
	}
	// expected obligations (vacuity guard: nothing silently disappears)
	expPath := filepath.Join(verif, "expected_obligations.json")
	expected := map[string][]string{}
	if b, err := os.ReadFile(expPath); err == nil {
		json.Unmarshal(b, &expected)
	}
	if updateExpected {
		for _, r := range results {
			n := stableName(r.Name)
			if r.Status == "proved" && r.Solver != "" && r.Solver != solvers[0].name && r.Seconds > 3 {
				solverHints[n] = r.Solver
			} else if r.Status == "proved" && r.Solver == solvers[0].name {
				delete(solverHints, n)
			}
		}
		hb, _ := json.MarshalIndent(solverHints, "", " ")
		os.WriteFile(hintPath, append(hb, '\n'), 0o644)
		var names []string
		for n := range seenNames {
			if !strings.Contains(n, "/safe:") && !strings.Contains(n, "/guarded:") {
				names = append(names, n)
			}
		}
		sort.Strings(names)
		expected[prop] = names
		b, _ := json.MarshalIndent(expected, "", " ")
		os.WriteFile(expPath, append(b, '\n'), 0o644)
	}
	var missing []string
	for _, n := range expected[prop] {
		if !seenNames[n] {
			missing = append(missing, n)
		}
	}
	// report
	replayDir := filepath.Join(verif, "replay", prop)
	if noEvidence {
		replayDir = filepath.Join(tmp, "replay")
	} else {
		os.RemoveAll(replayDir)
	}
	exit := 0
	// counterexamples are extracted and replayed for the first few
	// violations only (each costs a model query and a go test run), in
	// parallel; the others are reported with the solver's output alone
	const replayBudget = 8
	os.MkdirAll(replayDir, 0o755)
	type rr struct {
		path      string
		confirmed bool
	}
	res := make([]rr, len(viols))
	var wg sync.WaitGroup
	sem := make(chan struct{}, 4)
	for i := range viols {
		if i >= replayBudget {
			v := viols[i].r
			v.ctx = nil
			v.Status = v.Status + " (no replay attempted: replay budget of this run used up by earlier violations)"
			path, _ := writeReplay(e, replayDir, v, repo)
			res[i] = rr{path, false}
			continue
		}
		wg.Add(1)
		go func(i int) {
			defer wg.Done()
			sem <- struct{}{}
			defer func() { <-sem }()
			path, confirmed := writeReplay(e, replayDir, viols[i].r, repo)
			res[i] = rr{path, confirmed}
		}(i)
	}
	wg.Wait()
	for i := range viols {
		v := &viols[i]
		v.replay = res[i].path
		line := fmt.Sprintf("VIOLATION property=%s replay=%s obligation=%s", prop, res[i].path, v.r.Name)
		if !res[i].confirmed {
			line += " no-failing-input-found"
		}
		fmt.Println(line)
		exit = 1
	}
	for _, n := range missing {
		os.MkdirAll(replayDir, 0o755)
		path := filepath.Join(replayDir, sanitize(n)+".missing.txt")
		os.WriteFile(path, []byte("obligation "+n+" is listed in expected_obligations.json for "+prop+" but was not generated from the current source:\nthe contract clause or the call site it is attached to no longer exists.\n"), 0o644)
		fmt.Printf("VIOLATION property=%s replay=%s obligation=%s (obligation no longer generated) no-failing-input-found\n", prop, path, n)
		exit = 1
	}
	for _, f := range findings {
		if f.Kind == "finding" && f.Property == prop && knownHit[f] {
			fmt.Printf("KNOWN-FINDING: property=%s %s [obligation %s, witness class: %s]\n", prop, f.What, f.Obligation, f.Witness)
		}
	}
	// evidence
	trusted := map[string]bool{}
	notes := map[string]bool{}
	nInst := 0
	for _, fr := range frs {
		for k := range fr.Ctx.trusted {
			trusted[k] = true
		}
		for k := range fr.Ctx.notes {
			notes[k] = true
		}
		nInst += fr.NInst
	}
	var knownList []string
	for _, f := range findings {
		if f.Property == prop {
			knownList = append(knownList, fmt.Sprintf("%s: %s (%s)", f.Kind, f.What, f.Obligation))
		}
	}
	assumptions := []string{
		"sequential semantics: each function body is verified as one sequential execution; interleavings are covered only through lock-ghost obligations on guarded state",
		"partial correctness: termination, memory exhaustion and stack depth are not modelled",
		"machine integers are exact bit-vectors of their Go width (not mathematical); slice capacities are assumed below 2^48 (Go's maxAlloc on linux/amd64)",
		"the VC generator (gvc) and the SMT solvers are trusted; contracts of callees are used modularly (callee bodies are verified separately under their own contracts)",
	}
	for _, k := range sortedKeys(trusted) {
		assumptions = append(assumptions, "trusted: "+k)
	}
	for _, k := range sortedKeys(notes) {
		assumptions = append(assumptions, "abstraction: "+k)
	}
	if b, err := os.ReadFile(filepath.Join(verif, "prop_notes.json")); err == nil {
		json.Unmarshal(b, &propNotes)
	}
	if pn := propNotes[prop]; pn != "" {
		assumptions = append(assumptions, "not decided by this check: "+pn)
	}
	cov := map[string]any{
		"obligations":               nObl,
		"discharged":                nDis,
		"checker_cmd":               fmt.Sprintf("/verif/check %s %s   (= gvc check -tier %s %s; VCs from go/ssa NaiveForm of %s with -tags verif; one SMT-LIB2 query per obligation; portfolio z3 5.1.0 -> z3 4.8.12 -> cvc5 1.0; timeout %ds)", prop, tier, tier, prop, strings.Join(pkgs, ","), timeout),
		"trusted_base":              sortedKeys(trusted),
		"functions_under_contract":  fnKeys,
		"ssa_instructions":          nInst,
		"by_backend":                backend,
		"solver_seconds":            round3(solverSecs),
		"vacuity":                   map[string]any{"precondition_covers": nCover, "return_reachable_canaries": nCanary, "undecided_by_solver": nVacUnknown, "note": "a cover/canary query must be satisfiable; unsat aborts the check with ERROR; undecided ones (solver incompleteness on array lambdas) are counted here"},
		"stretch":                   map[string]any{"attempted": nStretch, "proved": nStretchOK, "list": stretchList, "note": "stretch obligations are attempted and reported but never counted in obligations/discharged and never decide the check"},
		"known_findings":            knownList,
		"known_finding_obligations": nKnown,
		"samples":                   samples,
		"expected_obligation_names": len(expected[prop]),
		"missing_expected":          missing,
		"contract_files":            e.specFiles,
	}
	ev := Evidence{PropertyID: prop, Tier: tier, Seed: seed, Level: "proof", Coverage: cov, Assumptions: assumptions, WallS: round3(time.Since(t0).Seconds()), Violations: len(viols) + len(missing)}
	if !noEvidence {
		os.MkdirAll(filepath.Join(verif, "evidence"), 0o755)
		b, _ := json.MarshalIndent(ev, "", " ")
		os.WriteFile(filepath.Join(verif, "evidence", prop+".json"), append(b, '\n'), 0o644)
	}
	if verbose || exit != 0 {
		for _, v := range viols {
			fmt.Printf("  failed %s [%s] at %s: %s\n", v.r.Name, v.r.Status, v.r.Pos, truncate(v.r.Text, 100))
		}
	}
	fmt.Printf("property %s: %d obligations, %d discharged, %d stretch (%d proved), %d known-finding probes, %.1fs\n", prop, nObl, nDis, nStretch, nStretchOK, nKnown, time.Since(t0).Seconds())
	return exit
}

func round3(x float64) float64 { return float64(int(x*1000+0.5)) / 1000 }

// propNotes: the clauses of each property this technique does not decide
// (DESIGN section 6); copied verbatim into the evidence.
var propNotes = map[string]string{}
