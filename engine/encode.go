package main

// VC generation for one function: passive block encoding over the
// NaiveForm SSA of the real code (DESIGN 2.5).

import (
	"fmt"
	"go/constant"
	"go/token"
	"go/types"
	"math/big"
	"sort"
	"strings"

	"golang.org/x/tools/go/ssa"
)

// Frame is the encoding of one function activation (the function under
// contract, or an inlined callee / closure).
type Frame struct {
	fn        *ssa.Function
	vals      map[ssa.Value]Val
	isLocal   map[*ssa.Alloc]bool
	freeVars  []Val
	parent    *Frame
	depth     int
	byName    map[string][]*ssa.Alloc
	closures  map[ssa.Value]*closureRec
	reach     map[*ssa.BasicBlock]string
	edgeCond  map[edgeKey]string
	callBlock *ssa.BasicBlock // block of the call site (inlined activations)
	loops     map[*ssa.BasicBlock]*loopInfo
}

type closureRec struct {
	fn       *ssa.Function
	bindings []Val
}

type retRec struct {
	guard   string
	st      *State
	results []Val
	pos     token.Pos
}

// FnEnc encodes one function under contract.
type FnEnc struct {
	Enc
	eng           *Eng
	fn            *ssa.Function
	con           *Contract
	st0           *State // state at entry (what old() refers to)
	params        map[string]Val
	top           *Frame
	safe          bool
	counters      map[string]int
	callOrd       map[string]int
	epoch         int
	curFrame      *Frame
	curGuard      string
	curPos        token.Pos
	loopOrd       int
	nilChecked    map[string][]string
	writes        []writeRec
	writePos      []token.Pos
	entryRegions  *[]Region      // the function's modifies clause evaluated at entry
	callResults   map[string]Val // "<short name>#<ordinal>" -> result of that call
	lastCall      string
	mapVers       map[string]int  // digest of the map heaps -> version number (pureResult)
	pureDone      map[string]bool // postconditions already assumed for a pure application
	heldPred      string          // predicate "this cell is a lock ghost" (see heldCellPred)
	heldPredDone  bool
	curCalleeFull string            // full name of the callee whose call-site assertions are being emitted
	assertMatched map[int]bool      // call-site assertions of the contract that met a call
	inGlobalInv   bool              // evaluating package-level invariants after a havoc
	rangeStartHas map[string]string // visited-set key -> which keys the ranged map had at the start
	eqState       *State            // state in which == on interface values loads boxed contents
	topCallKey    string            // key of the last call numbered in the function under contract itself
	callStates    map[string]*State // "<short name>#<ordinal>" -> state right after that call
	curBlock      *ssa.BasicBlock
	loopFrames    []loopFrame       // loops with an explicit loopmodifies clause: regions at the loop head
	srcOrd        map[token.Pos]int // call position -> ordinal among the calls of the same name, in source order
	curCallPos    token.Pos
}

func (f *FnEnc) pos(p token.Pos) token.Position { return f.eng.fset.Position(p) }

func (f *FnEnc) obName(class, detail string) string {
	return f.eng.fnKey(f.fn) + "/" + class + ":" + detail
}

func (f *FnEnc) nextOrd(kind string) int {
	f.counters[kind]++
	return f.counters[kind]
}

// safety emits a no-panic obligation (only for functions marked safe).
func (f *FnEnc) safety(kind string, guard, formula string, pos token.Pos) {
	n := f.nextOrd("safe:" + kind)
	if !f.safe {
		return
	}
	if formula == "true" {
		return
	}
	var watch []WatchTerm
	for name, v := range f.params {
		watch = append(watch, WatchTerm{Text: name, Terms: v.L})
	}
	f.c.oblige(Item{Guard: guard, Formula: formula, Name: f.obName("safe", fmt.Sprintf("%s#%d", kind, n)), Class: "safe", Pos: f.pos(pos),
		Text: kind, Replay: f.replayInfo(nil, nil), Watch: watch})
	// once checked, later obligations may rely on it (standard)
}

// ------------------------------------------------------------ frames

func (f *FnEnc) newFrame(fn *ssa.Function, parent *Frame) *Frame {
	fr := &Frame{fn: fn, vals: map[ssa.Value]Val{}, isLocal: map[*ssa.Alloc]bool{}, parent: parent, byName: map[string][]*ssa.Alloc{}, closures: map[ssa.Value]*closureRec{}}
	if parent != nil {
		fr.depth = parent.depth + 1
	}
	for _, b := range fn.Blocks {
		for _, in := range b.Instrs {
			if a, ok := in.(*ssa.Alloc); ok {
				if (!a.Heap || capturedOnlyLocally(a)) && f.localOK(a) {
					fr.isLocal[a] = true
				}
				if a.Comment != "" {
					fr.byName[a.Comment] = append(fr.byName[a.Comment], a)
				}
			}
		}
	}
	return fr
}

// localOK decides whether an Alloc can live in the symbolic store: its
// address only feeds loads, stores and field addresses.
func (f *FnEnc) localOK(a *ssa.Alloc) bool {
	t := derefType(a.Type())
	ok := true
	func() {
		defer func() {
			if r := recover(); r != nil {
				if _, is := r.(unsupported); is {
					ok = false
					return
				}
				panic(r)
			}
		}()
		if f.l.cells(t) > 64 {
			ok = false
		}
		if containsArray(t) {
			ok = false
		}
	}()
	if !ok {
		return false
	}
	return addrUsesOK(a)
}

func containsArray(t types.Type) bool {
	switch u := t.Underlying().(type) {
	case *types.Array:
		return true
	case *types.Struct:
		for i := 0; i < u.NumFields(); i++ {
			if containsArray(u.Field(i).Type()) {
				return true
			}
		}
	}
	return false
}

// capturedOnlyLocally: the variable is marked escaping only because closures
// capture it, and every such closure is merely called from this function
// (directly, through a local variable, or deferred) — so its cell can stay in
// the symbolic store (the closures are inlined at their call sites).
func capturedOnlyLocally(a *ssa.Alloc) bool {
	refs := a.Referrers()
	if refs == nil {
		return false
	}
	captured := false
	for _, r := range *refs {
		mc, ok := r.(*ssa.MakeClosure)
		if !ok {
			continue
		}
		captured = true
		if !closureOnlyCalled(mc) && !spawnedReadOnly(mc, a) {
			return false
		}
	}
	return captured
}

// spawnedReadOnly: the closure only READS the captured variable a (so the
// capturing function's view of a never changes, whoever runs the closure and
// whenever; a goroutine started with it is not interleaved, see the note on
// go statements).
func spawnedReadOnly(mc *ssa.MakeClosure, a *ssa.Alloc) bool {
	// (whatever is done with the closure value - started with go, handed to
	// a library as a callback, stored - its only access to the variable is
	// through its free variable, and that is only ever loaded)
	fn, ok := mc.Fn.(*ssa.Function)
	if !ok {
		return false
	}
	for i, b := range mc.Bindings {
		if b != a || i >= len(fn.FreeVars) {
			continue
		}
		fr := fn.FreeVars[i].Referrers()
		if fr == nil {
			continue
		}
		for _, u := range *fr {
			if ld, ok := u.(*ssa.UnOp); ok && ld.Op == token.MUL {
				continue
			}
			if _, ok := u.(*ssa.DebugRef); ok {
				continue
			}
			return false
		}
	}
	return true
}

func closureOnlyCalled(mc *ssa.MakeClosure) bool {
	refs := mc.Referrers()
	if refs == nil {
		return false
	}
	for _, r := range *refs {
		switch r := r.(type) {
		case *ssa.Call:
			if r.Call.Value != mc {
				return false
			}
		case *ssa.Defer:
			if r.Call.Value != mc {
				return false
			}
		case *ssa.Store:
			// stored into a local variable that is only loaded in order to be called
			al, ok := r.Addr.(*ssa.Alloc)
			if !ok || r.Val != mc || al.Referrers() == nil {
				return false
			}
			for _, u := range *al.Referrers() {
				switch u := u.(type) {
				case *ssa.Store:
					if u.Addr != al {
						return false
					}
				case *ssa.UnOp:
					if u.Referrers() == nil {
						return false
					}
					for _, cu := range *u.Referrers() {
						switch cu := cu.(type) {
						case *ssa.Call:
							if cu.Call.Value != u {
								return false
							}
						case *ssa.Defer:
							if cu.Call.Value != u {
								return false
							}
						case *ssa.DebugRef:
						default:
							return false
						}
					}
				case *ssa.DebugRef:
				default:
					return false
				}
			}
		case *ssa.DebugRef:
		default:
			return false
		}
	}
	return true
}

func addrUsesOK(v ssa.Value) bool {
	refs := v.Referrers()
	if refs == nil {
		return false
	}
	for _, r := range *refs {
		switch r := r.(type) {
		case *ssa.MakeClosure:
			// captured by a closure (see capturedOnlyLocally)
		case *ssa.Store:
			if r.Addr != v {
				return false
			}
		case *ssa.UnOp:
			if r.Op != token.MUL {
				return false
			}
		case *ssa.FieldAddr:
			if !addrUsesOK(r) {
				return false
			}
		case *ssa.DebugRef:
		default:
			return false
		}
	}
	return true
}

// ------------------------------------------------------------ values

func (f *FnEnc) val(fr *Frame, v ssa.Value) Val {
	switch v := v.(type) {
	case *ssa.Const:
		return f.constVal(v)
	case *ssa.Global:
		return Val{T: v.Type(), L: []string{f.globalRef(v), bv64(0), bv64(0)}}
	case *ssa.Function:
		return Val{T: v.Type(), L: []string{f.funcID(v)}}
	case *ssa.FreeVar:
		for i, fv := range fr.fn.FreeVars {
			if fv == v {
				return fr.freeVars[i]
			}
		}
		panic("free variable not bound")
	case *ssa.Builtin:
		unsupp("builtin %s used as a value", v.Name())
	}
	if x, ok := fr.vals[v]; ok {
		return x
	}
	panic(fmt.Sprintf("value %s (%T) of %s not yet defined", v.Name(), v, fr.fn.Name()))
}

func (f *FnEnc) globalRef(g *ssa.Global) string {
	name := "glob!" + sanitize(g.Pkg.Pkg.Path()+"."+g.Name())
	if !f.c.globals[name] {
		f.c.raw(fmt.Sprintf("(declare-const %s Int)", name))
		// the allocation type of the variable's object follows its type, as
		// for objects allocated by new/make
		tagFact := "(< (objtype " + name + ") 1000)"
		if f.objTypes != nil {
			gt := derefType(g.Type())
			var elem types.Type
			if at, ok := gt.Underlying().(*types.Array); ok {
				elem = at.Elem()
			}
			if tag, ok := f.objTypes.allocTag(gt, elem); ok {
				tagFact = eq("(objtype "+name+")", tag)
			}
		}
		f.c.assume("true", and("(< 0 "+name+")", "(< "+name+" "+f.st0.alloc+")", tagFact))
		for _, other := range sortedKeys(f.c.globals) {
			f.c.assume("true", not(eq(name, other)))
		}
		f.c.globals[name] = true
	}
	return name
}

func (f *FnEnc) funcID(fn *ssa.Function) string {
	name := "fn!" + sanitize(fn.String())
	if !f.c.ufs[name] {
		f.c.ufs[name] = true
		f.c.raw(fmt.Sprintf("(declare-const %s Int)", name))
		f.c.assume("true", "(< 0 "+name+")")
	}
	return name
}

func (f *FnEnc) constVal(c *ssa.Const) Val {
	t := c.Type()
	if c.Value == nil {
		// zero value of any type (nil, or zero struct for generics)
		return f.zero(t)
	}
	switch u := t.Underlying().(type) {
	case *types.Basic:
		switch {
		case u.Info()&types.IsBoolean != 0:
			if constant.BoolVal(c.Value) {
				return Val{T: t, L: []string{"true"}}
			}
			return Val{T: t, L: []string{"false"}}
		case u.Info()&types.IsInteger != 0:
			bi, _ := new(big.Int).SetString(c.Value.ExactString(), 10)
			if bi == nil {
				// constant may be a float-form integer
				if i, ok := constant.Int64Val(constant.ToInt(c.Value)); ok {
					return Val{T: t, L: []string{bvLitI(i, intWidth(t))}}
				}
				unsupp("integer constant %s", c.Value)
			}
			return Val{T: t, L: []string{bvLit(bi, intWidth(t))}}
		case u.Info()&types.IsString != 0:
			return Val{T: t, L: []string{f.c.strLit(constant.StringVal(c.Value))}}
		case u.Info()&types.IsFloat != 0:
			// floats are uninterpreted; distinct constants map to named
			// constants
			name := "flt!" + sanitize(c.Value.ExactString())
			so := basicSort(u)
			if !f.c.ufs[name+so] {
				f.c.ufs[name+so] = true
				f.c.raw(fmt.Sprintf("(declare-const %s %s)", name+className(so), so))
			}
			return Val{T: t, L: []string{name + className(so)}}
		}
	}
	unsupp("constant %s of type %s", c, t)
	return Val{}
}

// ------------------------------------------------------------ CFG

type loopInfo struct {
	head     *ssa.BasicBlock
	body     map[*ssa.BasicBlock]bool
	backs    []*ssa.BasicBlock
	ord      int
	modLocal map[*ssa.Alloc]bool
	writes   bool // heap may be written in the loop
	// lock ghosts of global mutexes at the loop head (loops whose havoc is
	// "everything": they are implicit invariants, see havocLoop)
	lockCells []Addr
	lockNames []string
	lockVals  []string
}

func isBackEdge(from, to *ssa.BasicBlock) bool { return to.Dominates(from) }

func reachable(fn *ssa.Function) map[*ssa.BasicBlock]bool {
	seen := map[*ssa.BasicBlock]bool{}
	var walk func(b *ssa.BasicBlock)
	walk = func(b *ssa.BasicBlock) {
		if seen[b] {
			return
		}
		seen[b] = true
		for _, s := range b.Succs {
			walk(s)
		}
	}
	walk(fn.Blocks[0])
	return seen
}

func topoOrder(fn *ssa.Function) []*ssa.BasicBlock {
	seen := map[*ssa.BasicBlock]bool{}
	var post []*ssa.BasicBlock
	var walk func(b *ssa.BasicBlock)
	walk = func(b *ssa.BasicBlock) {
		seen[b] = true
		for _, s := range b.Succs {
			if isBackEdge(b, s) || seen[s] {
				continue
			}
			walk(s)
		}
		post = append(post, b)
	}
	walk(fn.Blocks[0])
	for i, j := 0, len(post)-1; i < j; i, j = i+1, j-1 {
		post[i], post[j] = post[j], post[i]
	}
	return post
}

func findLoops(fn *ssa.Function) map[*ssa.BasicBlock]*loopInfo {
	loops := map[*ssa.BasicBlock]*loopInfo{}
	reach := reachable(fn)
	for _, b := range fn.Blocks {
		if !reach[b] {
			continue
		}
		for _, s := range b.Succs {
			if isBackEdge(b, s) {
				li := loops[s]
				if li == nil {
					li = &loopInfo{head: s, body: map[*ssa.BasicBlock]bool{s: true}, modLocal: map[*ssa.Alloc]bool{}}
					loops[s] = li
				}
				li.backs = append(li.backs, b)
				// natural loop: all blocks reaching b without passing s
				var walk func(x *ssa.BasicBlock)
				walk = func(x *ssa.BasicBlock) {
					if li.body[x] {
						return
					}
					li.body[x] = true
					for _, p := range x.Preds {
						if reach[p] {
							walk(p)
						}
					}
				}
				walk(b)
			}
		}
	}
	var heads []*ssa.BasicBlock
	for h := range loops {
		heads = append(heads, h)
	}
	sort.Slice(heads, func(i, j int) bool { return loopPos(loops[heads[i]]) < loopPos(loops[heads[j]]) })
	for i, h := range heads {
		loops[h].ord = i + 1
	}
	return loops
}

// loopPos is the smallest source position of an instruction in the loop;
// loop ordinals follow source order.
func loopPos(li *loopInfo) token.Pos {
	best := token.Pos(1 << 60)
	for b := range li.body {
		for _, in := range b.Instrs {
			if p := in.Pos(); p.IsValid() && p < best {
				best = p
			}
		}
	}
	if best == token.Pos(1<<60) {
		return token.Pos(li.head.Index)
	}
	return best
}

// mergeHeap sets out's heap of class k to ite(cond, a's, b's).  When both
// states share the base term the merge happens cell by cell on the write logs
// (a store present on one side only becomes a store of the other side's
// current value, i.e. a no-op there), so no ite over arrays is created.
func (f *FnEnc) mergeHeap(out, a, b *State, k string, cond string) {
	ab, bb := a.heaps[k], b.heaps[k]
	al, bl := a.log[k], b.log[k]
	if strings.HasPrefix(k, "map:") || ab != bb {
		ah, bh := ab, bb
		if !strings.HasPrefix(k, "map:") {
			ah, bh = f.heap(a, k), f.heap(b, k)
		}
		if ah != bh {
			setHeap(out, k, f.c.define("mH", f.heapSortOf(k), ite(cond, ah, bh)))
		} else {
			setHeap(out, k, ah)
		}
		return
	}
	if len(al) == 0 && len(bl) == 0 {
		setHeap(out, k, ab)
		return
	}
	// common prefix: same address sequence
	n := 0
	for n < len(al) && n < len(bl) && sameAddr(al[n].a, bl[n].a) {
		n++
	}
	sort := k
	var merged []logEntry
	for i := 0; i < n; i++ {
		v := al[i].v
		if al[i].v != bl[i].v {
			v = f.c.define("mcell", sort, ite(cond, al[i].v, bl[i].v))
		}
		merged = append(merged, logEntry{al[i].a, v})
	}
	if n < len(al) || n < len(bl) {
		// b's heap at the end of the common prefix; a's final heap
		bAfterP := &State{heaps: map[string]string{k: bb}, log: map[string][]logEntry{k: bl[:n]}}
		for _, en := range al[n:] {
			other := f.logLoad(bAfterP, sort, en.a) // b's value of that cell: storing it back changes nothing in b
			merged = append(merged, logEntry{en.a, f.c.define("mcell", sort, ite(cond, en.v, other))})
		}
		for _, en := range bl[n:] {
			other := f.logLoad(a, sort, en.a) // a's final value of that cell
			merged = append(merged, logEntry{en.a, f.c.define("mcell", sort, ite(cond, other, en.v))})
		}
	}
	out.heaps[k] = ab
	if out.log == nil {
		out.log = map[string][]logEntry{}
	}
	out.log[k] = merged
	if out.mat != nil {
		delete(out.mat, k)
	}
}

func hasDefers(fn *ssa.Function) bool {
	for _, b := range fn.Blocks {
		for _, in := range b.Instrs {
			if _, ok := in.(*ssa.Defer); ok {
				return true
			}
		}
	}
	return false
}

// callWrites reports whether a call may change the heap or allocate.
func (f *FnEnc) callWrites(fr *Frame, cc *ssa.CallCommon, depth int) bool {
	if cc.IsInvoke() {
		con := f.eng.ifaceContract(ifaceKey(cc))
		return con == nil || !(con.Pure || (con.HasMod && !con.ModAll && len(con.Modifies) == 0))
	}
	switch v := cc.Value.(type) {
	case *ssa.Builtin:
		switch v.Name() {
		case "len", "cap", "min", "max", "print", "println", "ssa:wrapnilchk", "ssa:deferstack", "recover":
			return false
		}
		return true
	case *ssa.Function:
		con := f.eng.contractOf(v)
		if con != nil && !con.Inline {
			return !(con.Pure || (con.HasMod && !con.ModAll && len(con.Modifies) == 0 && !con.Fresh))
		}
		switch v.String() {
		case "math/bits.TrailingZeros32", "math/bits.TrailingZeros16", "math/bits.TrailingZeros64", "math/bits.TrailingZeros8",
			"math/bits.OnesCount16", "math/bits.OnesCount32", "math/bits.OnesCount8", "math/bits.OnesCount64",
			"math/bits.Len32", "math/bits.Len16", "math/bits.Len64", "math/bits.Len8", "math/bits.Add64", "math/bits.Mul64", "math/bits.Div64",
			"sync/atomic.LoadUint32", "sync/atomic.LoadUint64", "sync/atomic.LoadInt32", "sync/atomic.LoadInt64":
			return false
		}
		if ((con != nil && con.Inline) || v.Parent() != nil) && depth < 4 && len(v.Blocks) > 0 {
			return f.bodyWrites(v, depth+1)
		}
		return true
	case *ssa.MakeClosure:
		if fnv, ok := v.Fn.(*ssa.Function); ok && depth < 4 {
			return f.bodyWrites(fnv, depth+1)
		}
		return true
	case *ssa.UnOp:
		// a closure held in a local variable
		if a, ok := v.X.(*ssa.Alloc); ok && a.Referrers() != nil {
			var target *ssa.Function
			n := 0
			for _, r := range *a.Referrers() {
				if s, ok := r.(*ssa.Store); ok && s.Addr == a {
					n++
					switch sv := s.Val.(type) {
					case *ssa.Function:
						target = sv
					case *ssa.MakeClosure:
						target, _ = sv.Fn.(*ssa.Function)
					}
				}
			}
			if n == 1 && target != nil && depth < 4 {
				return f.bodyWrites(target, depth+1)
			}
		}
		return true
	}
	return true
}

func (f *FnEnc) bodyWrites(fn *ssa.Function, depth int) bool {
	for _, b := range fn.Blocks {
		for _, in := range b.Instrs {
			switch in := in.(type) {
			case *ssa.Store:
				if a := rootAlloc(in.Addr); a == nil || a.Heap {
					return true
				}
			case *ssa.Alloc:
				if in.Heap {
					return true
				}
			case *ssa.Call:
				if f.callWrites(nil, in.Common(), depth) {
					return true
				}
			case *ssa.MapUpdate, *ssa.MakeSlice, *ssa.MakeMap, *ssa.MakeInterface, *ssa.MakeClosure, *ssa.MakeChan, *ssa.Defer, *ssa.Go, *ssa.Select, *ssa.Send:
				return true
			}
		}
	}
	return false
}

func rootAlloc(v ssa.Value) *ssa.Alloc {
	for {
		switch x := v.(type) {
		case *ssa.Alloc:
			return x
		case *ssa.FieldAddr:
			v = x.X
		default:
			return nil
		}
	}
}

type edgeKey struct {
	from *ssa.BasicBlock
	si   int
}

// encodeBody encodes the CFG of fr.fn starting from state entry under the
// reachability condition guard.  It returns one record per return site.
func (f *FnEnc) encodeBody(fr *Frame, entry *State, guard string) []retRec {
	fn := fr.fn
	if len(fn.Blocks) == 0 {
		unsupp("function %s has no body", fn)
	}
	order := topoOrder(fn)
	loops := findLoops(fn)
	fr.loops = loops
	for _, li := range loops {
		for b := range li.body {
			for _, in := range b.Instrs {
				switch in := in.(type) {
				case *ssa.Store:
					if a := rootAlloc(in.Addr); a != nil && fr.isLocal[a] {
						li.modLocal[a] = true
					} else {
						li.writes = true
					}
				case *ssa.Alloc:
					if fr.isLocal[in] {
						li.modLocal[in] = true
					} else {
						li.writes = true
					}
				case *ssa.Call:
					if f.callWrites(fr, in.Common(), 0) {
						li.writes = true
					}
				case *ssa.RunDefers:
					if hasDefers(fn) {
						li.writes = true
					}
				case *ssa.MapUpdate, *ssa.MakeSlice, *ssa.MakeMap, *ssa.MakeInterface, *ssa.MakeClosure, *ssa.MakeChan, *ssa.Defer, *ssa.Go, *ssa.Select, *ssa.Send:
					li.writes = true
				case *ssa.Convert:
					if isString(in.X.Type()) != isString(in.Type()) {
						li.writes = true
					}
				}
			}
		}
	}
	outState := map[*ssa.BasicBlock]*State{}
	reach := map[*ssa.BasicBlock]string{}
	edgeCond := map[edgeKey]string{}
	fr.reach, fr.edgeCond = reach, edgeCond
	var rets []retRec

	savedFrame := f.curFrame
	f.curFrame = fr
	defer func() { f.curFrame = savedFrame }()

	for _, b := range order {
		var st *State
		var R string
		type inEdge struct {
			cond string
			st   *State
			from *ssa.BasicBlock
		}
		var ins []inEdge
		var backs []inEdge
		_ = backs
		if b == fn.Blocks[0] {
			ins = append(ins, inEdge{guard, entry, nil})
		}
		for _, p := range b.Preds {
			if isBackEdge(p, b) {
				continue
			}
			ps, ok := outState[p]
			if !ok {
				continue // unreachable predecessor
			}
			for si, s := range p.Succs {
				if s == b {
					ins = append(ins, inEdge{edgeCond[edgeKey{p, si}], ps, p})
				}
			}
		}
		if len(ins) == 0 {
			continue
		}
		// tail duplication: a small block that only returns is encoded once
		// per incoming edge, with that edge's state (no merge of the states of
		// all the paths that fall through to a common `return`)
		if len(ins) > 1 && loops[b] == nil && len(b.Instrs) <= 24 && len(b.Succs) == 0 {
			if _, isRet := b.Instrs[len(b.Instrs)-1].(*ssa.Return); isRet {
				for k, e := range ins {
					stK := e.st.clone()
					RK := f.c.define(fmt.Sprintf("R%d_%d_%d", fr.depth, b.Index, k), SBool, e.cond)
					reach[b] = RK
					f.curGuard = RK
					f.curBlock = b
					for _, in := range b.Instrs {
						if p := in.Pos(); p.IsValid() {
							f.curPos = p
						}
						switch in := in.(type) {
						case *ssa.Return:
							var res []Val
							for _, r := range in.Results {
								res = append(res, f.val(fr, r))
							}
							rets = append(rets, retRec{guard: RK, st: stK, results: res, pos: f.curPos})
							if f.eng.traceCalls && fr == f.top && e.from != nil {
								last := token.NoPos
								for _, pi := range e.from.Instrs {
									if pp := pi.Pos(); pp.IsValid() {
										last = pp
									}
								}
								fmt.Printf("  return #%d (line %d) reached from block %d ending at line %d\n", len(rets), f.pos(f.curPos).Line, e.from.Index, f.pos(last).Line)
							}
						default:
							f.instr(fr, stK, RK, in)
						}
					}
				}
				continue
			}
		}
		var conds []string
		for _, e := range ins {
			conds = append(conds, e.cond)
		}
		R = f.c.define(fmt.Sprintf("R%d_%d", fr.depth, b.Index), SBool, or(conds...))
		if li := loops[b]; li != nil {
			// loop head: check invariant on entry edges, havoc, assume
			ls := f.loopSpec(fr, li)
			for _, e := range ins {
				f.checkInvariant(fr, li, ls, e.st, e.cond, "entry")
			}
			st = ins[len(ins)-1].st.clone()
			for i := len(ins) - 2; i >= 0; i-- {
				st = f.mergeStates(ins[i].st, st, ins[i].cond)
			}
			st = f.havocLoop(fr, li, ls, st)
			f.assumeInvariant(fr, li, ls, st, R)
		} else if len(ins) == 1 {
			st = ins[0].st.clone()
		} else {
			st = ins[len(ins)-1].st.clone()
			for i := len(ins) - 2; i >= 0; i-- {
				st = f.mergeStates(ins[i].st, st, ins[i].cond)
			}
		}
		reach[b] = R
		f.curGuard = R
		f.curBlock = b
		// instructions
		ended := false
		for _, in := range b.Instrs {
			if p := in.Pos(); p.IsValid() {
				f.curPos = p
			}
			switch in := in.(type) {
			case *ssa.If:
				c := f.val(fr, in.Cond).L[0]
				edgeCond[edgeKey{b, 0}] = f.c.define("e", SBool, and(R, c))
				edgeCond[edgeKey{b, 1}] = f.c.define("e", SBool, and(R, not(c)))
			case *ssa.Jump:
				edgeCond[edgeKey{b, 0}] = R
			case *ssa.Return:
				var res []Val
				for _, r := range in.Results {
					res = append(res, f.val(fr, r))
				}
				rets = append(rets, retRec{guard: R, st: st, results: res, pos: f.curPos})
				ended = true
			case *ssa.Panic:
				f.safety("panic", R, "false", f.curPos)
				ended = true
			default:
				f.instr(fr, st, R, in)
			}
		}
		_ = ended
		outState[b] = st
		// back edges out of this block: invariant preservation
		for si, s := range b.Succs {
			if isBackEdge(b, s) {
				li := loops[s]
				ls := f.loopSpec(fr, li)
				f.checkInvariant(fr, li, ls, st, edgeCond[edgeKey{b, si}], "preserved")
				for i, a := range li.lockCells {
					nm := fmt.Sprintf("/invariant-preserved:loop%d:lock-balanced:%s", li.ord, li.lockNames[i])
					if n := f.nextOrd(fr.fn.Name() + nm); n > 1 {
						nm += fmt.Sprintf("#%d", n)
					}
					f.c.oblige(Item{Guard: edgeCond[edgeKey{b, si}], Formula: eq(f.loadLeaf(st, SBool, a), li.lockVals[i]),
						Name: f.eng.fnKey(fr.fn) + nm, Class: "invariant",
						Pos: f.pos(f.curPos), Text: "held(" + li.lockNames[i] + ") at the end of an iteration is as at the loop head (implicit invariant of a loop that may modify everything)"})
				}
			}
		}
	}
	return rets
}

// mergeStates returns ite(cond, a, b) state; with b == nil it clones a.
func (f *FnEnc) mergeStates(a, b *State, cond string) *State {
	if b == nil {
		return a.clone()
	}
	out := b.clone()
	for _, al := range sortedAllocs(b.locals) {
		bl := b.locals[al]
		alv, ok := a.locals[al]
		if !ok {
			continue
		}
		same := true
		for i := range bl {
			if bl[i] != alv[i] {
				same = false
				break
			}
		}
		if same {
			continue
		}
		sorts := f.l.leafSorts(derefType(al.Type()))
		nl := make([]string, len(bl))
		for i := range bl {
			if bl[i] == alv[i] {
				nl[i] = bl[i]
			} else {
				nl[i] = f.c.define("m_"+al.Comment, sorts[i], ite(cond, alv[i], bl[i]))
			}
		}
		out.locals[al] = nl
	}
	for _, al := range sortedAllocs(a.locals) {
		alv := a.locals[al]
		if _, ok := b.locals[al]; !ok {
			out.locals[al] = alv
		}
	}
	// lazily created heaps (maps) may exist in only one of the states
	for _, k := range sortedHeapKeys(a.heaps) {
		if _, ok := out.heaps[k]; !ok {
			setHeap(out, k, f.lazyHeap(b, k))
		}
	}
	for _, k := range sortedHeapKeys(out.heaps) {
		if _, ok := a.heaps[k]; !ok {
			a.heaps[k] = f.lazyHeap(a, k)
		}
		f.mergeHeap(out, a, b, k, cond)
	}
	if a.alloc != b.alloc {
		out.alloc = f.c.define("malloc", SInt, ite(cond, a.alloc, b.alloc))
	}
	if a.epoch != b.epoch {
		f.epoch++
		out.epoch = f.epoch
	}
	if a.gepoch != b.gepoch {
		f.epoch++
		out.gepoch = f.epoch
	}
	// defers: same static list prefix; activity flags merged
	if len(a.defers) != len(b.defers) {
		// a defer executed on one path only
		n := len(a.defers)
		if len(b.defers) > n {
			n = len(b.defers)
		}
		var nd []deferRec
		for i := 0; i < n; i++ {
			switch {
			case i < len(a.defers) && i < len(b.defers):
				d := b.defers[i]
				d.active = f.c.define("dact", SBool, ite(cond, a.defers[i].active, b.defers[i].active))
				nd = append(nd, d)
			case i < len(a.defers):
				d := a.defers[i]
				d.active = f.c.define("dact", SBool, and(cond, d.active))
				nd = append(nd, d)
			default:
				d := b.defers[i]
				d.active = f.c.define("dact", SBool, and(not(cond), d.active))
				nd = append(nd, d)
			}
		}
		out.defers = nd
	} else {
		for i := range a.defers {
			if a.defers[i].active != b.defers[i].active {
				out.defers[i].active = f.c.define("dact", SBool, ite(cond, a.defers[i].active, b.defers[i].active))
			}
		}
	}
	return out
}

func (f *FnEnc) heapSortOf(key string) string {
	if strings.HasPrefix(key, "map:") {
		return f.mapHeapSort(key)
	}
	return heapSort(key)
}

// Deterministic iteration orders (map order would make the generated SMT text,
// and with it solver behaviour, vary from run to run).
func allocLess(a, b *ssa.Alloc) bool {
	an, bn := a.Name(), b.Name()
	if len(an) != len(bn) {
		return len(an) < len(bn)
	}
	if an != bn {
		return an < bn
	}
	return a.Pos() < b.Pos()
}

func sortedAllocs(m map[*ssa.Alloc][]string) []*ssa.Alloc {
	out := make([]*ssa.Alloc, 0, len(m))
	for a := range m {
		out = append(out, a)
	}
	sort.Slice(out, func(i, j int) bool { return allocLess(out[i], out[j]) })
	return out
}

func sortedAllocSet(m map[*ssa.Alloc]bool) []*ssa.Alloc {
	out := make([]*ssa.Alloc, 0, len(m))
	for a := range m {
		out = append(out, a)
	}
	sort.Slice(out, func(i, j int) bool { return allocLess(out[i], out[j]) })
	return out
}

func sortedHeapKeys(m map[string]string) []string {
	out := make([]string, 0, len(m))
	for k := range m {
		out = append(out, k)
	}
	sort.Strings(out)
	return out
}

type loopFrame struct {
	fr    *Frame
	li    *loopInfo
	rs    []Region
	alloc string // allocation counter at the loop head: objects allocated in the loop are >= it
}
