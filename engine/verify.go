package main

// Top-level: encode one function under contract into obligations.

import (
	"fmt"
	"go/token"
	"go/types"
	"sort"
	"strings"

	"golang.org/x/tools/go/ssa"
)

// FnResult is the outcome of VC generation for one function or lemma.
type FnResult struct {
	Key   string
	Ctx   *Ctx
	Err   error
	Props []string
	NInst int
}

func (e *Eng) encodeFunction(fn *ssa.Function, con *Contract) (res *FnResult) {
	res = &FnResult{Key: e.fnKey(fn), Props: con.Props}
	c := newCtx()
	res.Ctx = c
	defer func() {
		if r := recover(); r != nil {
			switch x := r.(type) {
			case unsupported:
				res.Err = fmt.Errorf("%s: %v", res.Key, x)
			case specErr:
				res.Err = fmt.Errorf("%s: contract error: %s", res.Key, x.msg)
			default:
				panic(r)
			}
		}
	}()
	f := &FnEnc{Enc: Enc{c: c, l: e.lay, objTypes: e.objTypes}, eng: e, fn: fn, con: con, safe: con.Safe, counters: map[string]int{}, callOrd: map[string]int{}}
	for _, b := range fn.Blocks {
		res.NInst += len(b.Instrs)
	}
	f.ixWrap = con.EMatch
	c.strExt = con.StrExt
	// source-order ordinals of the call sites of the function under contract
	{
		type site struct {
			name string
			pos  token.Pos
		}
		var sites []site
		for _, b := range fn.Blocks {
			for _, in := range b.Instrs {
				ci, ok := in.(ssa.CallInstruction)
				if !ok {
					continue
				}
				cc := ci.Common()
				name := ""
				switch {
				case cc.IsInvoke():
					name = cc.Method.Name()
				case cc.StaticCallee() != nil:
					name = cc.StaticCallee().Name()
				default:
					continue
				}
				if cc.Pos().IsValid() {
					sites = append(sites, site{name, cc.Pos()})
				}
			}
		}
		sort.Slice(sites, func(i, j int) bool { return sites[i].pos < sites[j].pos })
		f.srcOrd = map[token.Pos]int{}
		cnt := map[string]int{}
		for _, s := range sites {
			if _, dup := f.srcOrd[s.pos]; dup {
				continue
			}
			cnt[s.name]++
			f.srcOrd[s.pos] = cnt[s.name]
		}
	}
	f.onWrite = func(w writeRec) {
		w.Guard = f.curGuard
		if w.Guard == "" {
			w.Guard = "true"
		}
		w.Block = f.curBlock
		w.Frame = f.curFrame
		f.writes = append(f.writes, w)
		f.writePos = append(f.writePos, f.curPos)
	}
	// entry state
	st := &State{locals: map[*ssa.Alloc][]string{}, heaps: map[string]string{}}
	for _, so := range allClasses {
		st.heaps[so] = c.fresh("H0"+className(so), heapSort(so))
	}
	st.alloc = c.fresh("alloc0", SInt)
	c.assume("true", "(< 0 "+st.alloc+")")
	f.st0 = st.clone()
	f.top = f.newFrame(fn, nil)
	f.params = map[string]Val{}
	for _, p := range fn.Params {
		v := f.freshVal("p_"+p.Name(), p.Type())
		c.assume("true", f.wf(st, v))
		f.top.vals[p] = v
		f.params[p.Name()] = v
	}
	var fvRefs []string
	for _, fv := range fn.FreeVars {
		// a free variable is the address of the captured variable's cell (a
		// separate allocation of the enclosing function); in contracts its
		// name denotes the variable's value at entry
		v := f.freshVal("fv_"+fv.Name(), fv.Type())
		c.assume("true", f.wf(st, v))
		f.top.freeVars = append(f.top.freeVars, v)
		if et := derefType(fv.Type()); et != nil {
			c.assume("true", and(not(eq(v.L[0], "0")), eq(v.L[1], bv64(0)), eq(v.L[2], bv64(0)), "(< (objtype "+v.L[0]+") 1000)"))
			for _, o := range fvRefs {
				c.assume("true", not(eq(v.L[0], o)))
			}
			fvRefs = append(fvRefs, v.L[0])
			val := f.load(st, et, ptrAddr(v))
			c.assume("true", f.wf(st, val))
			f.params[fv.Name()] = val
		} else {
			f.params[fv.Name()] = v
		}
	}
	// preconditions
	preEnv := func() *SpecEnv {
		se := &SpecEnv{f: f, pkg: pkgOf(fn), vars: map[string]Val{}, oldVars: map[string]Val{}, cur: f.st0, old: f.st0, guard: "true"}
		for k, v := range f.params {
			se.vars[k] = v
			se.oldVars[k] = v
		}
		return se
	}
	for _, rq := range con.Requires {
		c.assume("true", f.evalClause(preEnv(), rq))
	}
	if fn.Pkg != nil {
		for _, g := range e.globalInvs[fn.Pkg.Pkg.Path()] {
			c.assume("true", f.evalClause(preEnv(), g))
			c.trusted["package-level invariant (established by package initialisation; variable never reassigned): "+g.Text] = true
		}
	}
	for _, as := range con.Assumes {
		c.assume("true", f.evalClause(preEnv(), as))
		c.trusted["assume clause in "+res.Key+": "+as.Text] = true
	}
	// vacuity: the preconditions must be satisfiable
	c.oblige(Item{Guard: "true", Formula: "false", Name: res.Key + "/cover:requires", Class: "cover", Expect: "sat", Pos: token.Position{Filename: con.File, Line: con.Line}, Text: "preconditions are satisfiable"})

	var rs []Region
	if con.HasMod && !con.ModAll {
		rs = f.regions(preEnv(), con.Modifies)
		f.entryRegions = &rs
	}
	rets := f.encodeBody(f.top, st, "true")

	// a call-site assertion that names a call the function does not make (any
	// more) cannot be checked: that is a failed obligation, not silence
	for i, ca := range con.CallAssert {
		if !f.assertMatched[i] && strings.TrimSpace(ca.Clause.Text) != "false" { // (`false` = must-not-call: no call is the point)
			ord := ""
			if ca.Ord != 0 {
				ord = fmt.Sprintf("#%d", ca.Ord)
			}
			c.oblige(Item{Guard: "true", Formula: "false", Name: res.Key + fmt.Sprintf("/at-call:%s%s:%s:call-exists", ca.Callee, ord, ca.Clause.Label), Class: "callsite", // (not "assert": never assumed by later obligations)
				Pos: token.Position{Filename: con.File, Line: ca.Clause.Line}, Text: "the function calls " + ca.Callee + ord + " (the call-site assertion '" + ca.Clause.Label + "' is about that call)"})
		}
	}

	resNames := resultNames(e, res.Key)
	for ri, r := range rets {
		cur := r.st
		mkEnv := func() *SpecEnv {
			se := preEnv()
			se.cur = cur
			se.results = r.results
			se.resName = resNames
			se.guard = r.guard
			se.goal = true
			se.witness = con.Witness
			se.locals = f.localsEnv(f.top)
			return se
		}
		// ghost updates
		f.curGuard = r.guard
		f.curPos = r.pos
		for _, g := range con.Ghost {
			se := mkEnv()
			if gc, ok := g.Target.(SCall); ok && gc.Fun == "ghostint" {
				r := f.region(se, g.Target)
				v := se.eval(g.Value, types.Typ[types.Int])
				k := "map:ghost:" + r.Ghost
				h := f.lazyHeap(cur, k)
				f.noteWrite(writeRec{Kind: "ghost:" + r.Ghost, Ref: r.Ref})
				cur.heaps[k] = f.c.define("G", "(Array Int (_ BitVec 64))", sto(h, r.Ref, v.L[0]))
				continue
			}
			a, t := se.addrOfIn(g.Target, true)
			v := se.eval(g.Value, t)
			if len(v.L) != f.l.cells(t) {
				sfail("ghost assignment %s: type mismatch", g.Text)
			}
			f.store(cur, a, Val{T: t, L: v.L})
		}
		suffix := ""
		if len(rets) > 1 {
			suffix = fmt.Sprintf("@ret%d", ri+1)
		}
		var watch []WatchTerm
		for name, v := range f.params {
			watch = append(watch, WatchTerm{Text: name, Terms: v.L})
		}
		for i, rv := range r.results {
			watch = append(watch, WatchTerm{Text: fmt.Sprintf("result%d", i), Terms: rv.L})
		}
		for _, w := range e.watch {
			func() {
				defer func() {
					if r := recover(); r != nil {
						watch = append(watch, WatchTerm{Text: w + " (error: " + fmt.Sprint(r) + ")"})
					}
				}()
				ex, err := parseExpr(w)
				if err != nil {
					panic(err)
				}
				se := mkEnv()
				se.goal = false
				v := se.eval(ex, nil)
				watch = append(watch, WatchTerm{Text: w, Terms: v.L})
			}()
		}
		proved := map[string][]string{} // label -> formulas already emitted at this return site
		for i, en := range con.Ensures {
			label := en.Label
			if label == "" {
				label = fmt.Sprint(i + 1)
			}
			if en.Assumed {
				c.trusted["assumed postcondition ("+"trusts "+label+") of "+res.Key+": "+en.Text] = true
				continue
			}
			var hyps []string
			for _, pre := range con.Uses[label] {
				for l, fs := range proved {
					if strings.HasPrefix(l, pre) {
						hyps = append(hyps, fs...)
					}
				}
			}
			sort.Strings(hyps)
			parts := splitConjMacro(en.E, func(name string) *SpecFunc {
				// (only predicates of the function's own package: their bodies
				// resolve names in that package)
				if sf := e.specFunc(pkgOf(f.fn), name); sf != nil && pkgOf(f.fn) != nil && sf.Pkg == pkgOf(f.fn).Path() {
					return sf
				}
				return nil
			})
			for pi, part := range parts {
				pl := label
				if len(parts) > 1 {
					pl = fmt.Sprintf("%s.%d", label, pi+1)
				}
				sub := en
				sub.E = part
				formula := f.evalClause(mkEnv(), sub)
				proved[label] = append(proved[label], formula)
				// known findings: the obligation is split by witness class
				var ws []string
				for _, fd := range e.findingsFor(res.Key + "/ensures:" + label) {
					wc := Clause{Text: fd.Witness, E: fd.wexpr, File: "known_findings.txt", Line: fd.Line}
					se := mkEnv()
					se.goal = false
					w := f.evalClause(se, wc)
					ws = append(ws, w)
					c.oblige(Item{Guard: r.guard, Formula: implies(w, formula), Name: res.Key + "/ensures:" + pl + suffix + fmt.Sprintf("[known:%d]", fd.Line), Class: "known",
						Pos: f.pos(r.pos), Text: en.Text, Watch: watch, Finding: fd, Replay: f.replayInfo(r.results, cur)})
				}
				if len(ws) > 0 {
					formula = implies(not(or(ws...)), formula)
				}
				c.oblige(Item{Guard: r.guard, Formula: formula, Name: res.Key + "/ensures:" + pl + suffix, Class: "ensures",
					Pos: f.pos(r.pos), Text: en.Text, Replay: f.replayInfo(r.results, cur), Watch: watch, Hyps: hyps})
			}
		}
		// a function that may modify everything still leaves global mutexes
		// as it found them, unless its contract names their lock ghost
		if (!con.HasMod || con.ModAll) && len(con.Modifies) == 0 {
			cells, names := f.globalLockCells(cur)
			for i, a := range cells {
				c.oblige(Item{Guard: r.guard, Formula: eq(f.loadLeaf(cur, SBool, a), f.loadLeaf(f.st0, SBool, a)), Name: res.Key + "/lock-balanced:" + names[i] + suffix, Class: "frame",
					Pos: f.pos(r.pos), Text: "held(" + names[i] + ") is as at entry (the contract does not name it)"})
			}
		}
		// (maps, like cells, are covered write by write: see writeObligations)
		// vacuity: this return site must be reachable (otherwise every
		// obligation at it holds for the wrong reason)
		if len(rets) > 1 && !con.Unreachable[ri+1] {
			c.oblige(Item{Guard: r.guard, Formula: "false", Name: res.Key + "/canary:reachable" + suffix, Class: "canary", Expect: "sat", Pos: f.pos(r.pos), Text: "this return is reachable"})
		}
	}
	if con.HasMod && !con.ModAll {
		f.writeObligations(rs, res.Key)
	}
	f.loopWriteObligations(res.Key)
	// canary: some return must be reachable (else the assumptions are
	// contradictory and every obligation above is vacuous)
	var gs []string
	for _, r := range rets {
		gs = append(gs, r.guard)
	}
	if len(rets) > 0 {
		c.oblige(Item{Guard: or(gs...), Formula: "false", Name: res.Key + "/canary:return-reachable", Class: "canary", Expect: "sat", Pos: token.Position{Filename: con.File, Line: con.Line}, Text: "a return is reachable"})
	}
	return res
}

// addrOfIn evaluates a designator with parameters bound to entry values.
func (se *SpecEnv) addrOfIn(e SExpr, pre bool) (Addr, types.Type) {
	return se.addrOf(e)
}

// encodeLemma turns a lemma into a single validity obligation over an
// arbitrary heap.
func (e *Eng) encodeLemma(lm *Lemma) (res *FnResult) {
	res = &FnResult{Key: pkgShort(lm.Pkg) + ".lemma:" + lm.Name, Props: lm.Props}
	c := newCtx()
	res.Ctx = c
	defer func() {
		if r := recover(); r != nil {
			switch x := r.(type) {
			case unsupported:
				res.Err = fmt.Errorf("%s: %v", res.Key, x)
			case specErr:
				res.Err = fmt.Errorf("%s: contract error: %s", res.Key, x.msg)
			default:
				panic(r)
			}
		}
	}()
	f := &FnEnc{Enc: Enc{c: c, l: e.lay, objTypes: e.objTypes}, eng: e, counters: map[string]int{}, callOrd: map[string]int{}}
	st := &State{locals: map[*ssa.Alloc][]string{}, heaps: map[string]string{}}
	for _, so := range allClasses {
		st.heaps[so] = c.fresh("H0"+className(so), heapSort(so))
	}
	st.alloc = c.fresh("alloc0", SInt)
	c.assume("true", "(< 0 "+st.alloc+")")
	f.st0 = st
	se := &SpecEnv{f: f, pkg: e.typesPkg(lm.Pkg, nil), vars: map[string]Val{}, oldVars: map[string]Val{}, cur: st, old: st, guard: "true"}
	for _, p := range lm.Params {
		t := se.resolveType(p.Type)
		v := f.freshVal("l_"+p.Name, t)
		c.assume("true", f.wf(st, v))
		se.vars[p.Name] = v
	}
	for _, rq := range lm.Requires {
		c.assume("true", f.evalClause(se, rq))
	}
	c.oblige(Item{Guard: "true", Formula: "false", Name: res.Key + "/cover:requires", Class: "cover", Expect: "sat", Pos: token.Position{Filename: lm.File, Line: lm.Line}, Text: "lemma hypotheses are satisfiable"})
	se.goal = true
	for i, en := range lm.Ensures {
		label := en.Label
		if label == "" {
			label = fmt.Sprint(i + 1)
		}
		c.oblige(Item{Guard: "true", Formula: f.evalClause(se, en), Name: res.Key + "/ensures:" + label, Class: "lemma", Pos: token.Position{Filename: en.File, Line: en.Line}, Text: en.Text})
	}
	return res
}

func pkgShort(path string) string {
	if i := strings.LastIndex(path, "/"); i >= 0 {
		return path[i+1:]
	}
	return path
}

// ------------------------------------------------------------ lock ghosts

// heldOffset is the leaf offset of the ghost `held` flag in a mutex type.
func (f *FnEnc) heldOffset(t types.Type) int {
	for _, fi := range f.l.structFields(t) {
		if fi.Ghost && fi.Name == "held" {
			return fi.Off
		}
	}
	sfail("type %s has no lock ghost", t)
	return 0
}

// guardedAccess emits the lock-discipline obligation for a load or store
// through a field address of a struct with a `guarded` declaration.
func (f *FnEnc) guardedAccess(fr *Frame, st *State, R string, addr ssa.Value, write bool) {
	fa, ok := addr.(*ssa.FieldAddr)
	if !ok {
		// map value loaded from a guarded field: find the load
		if u, ok := addr.(*ssa.UnOp); ok && u.Op == token.MUL {
			if fa2, ok := u.X.(*ssa.FieldAddr); ok {
				fa = fa2
			}
		}
		if fa == nil {
			return
		}
	}
	stT := derefType(fa.X.Type())
	var g *guardInfo
	tname := ""
	if named, ok := stT.(*types.Named); ok {
		g = f.eng.guardedFor(named)
		tname = named.Obj().Name()
	} else if gl, ok := fa.X.(*ssa.Global); ok {
		g = f.eng.guarded[gl.Pkg.Pkg.Path()+".var "+gl.Name()]
		tname = gl.Name()
	}
	if g == nil {
		return
	}
	fields := f.l.structFields(stT)
	fname := fields[fa.Field].Name
	if !g.fields[fname] {
		return
	}
	if !f.eng.lockChecks {
		return
	}
	base := f.val(fr, fa.X)
	if base.Loc != nil {
		return
	}
	var mu fieldInfo
	for _, fi := range fields {
		if fi.Name == g.mu {
			mu = fi
		}
	}
	a := ptrAddr(base).plusSub(mu.Off)
	held := f.loadLeaf(st, SBool, a.plusSub(f.heldOffset(mu.T)))
	cond := held
	if !write {
		// a read lock suffices for reads
		for _, fi := range f.l.structFields(mu.T) {
			if fi.Ghost && fi.Name == "rheld" {
				cond = or(held, f.loadLeaf(st, SBool, a.plusSub(fi.Off)))
			}
		}
	}
	// an object allocated by this function is initialised without its lock
	// (constructor pattern); the waiver is by allocation, so it also covers
	// accesses after the function has published the object (stated in DESIGN)
	cond = or(cond, "(>= "+base.L[0]+" "+f.st0.alloc+")")
	kind := "read"
	if write {
		kind = "write"
	}
	n := f.nextOrd("guarded:" + fname + ":" + kind)
	f.c.oblige(Item{Guard: R, Formula: cond, Name: f.eng.fnKey(f.fn) + fmt.Sprintf("/guarded:%s.%s:%s#%d", tname, fname, kind, n), Class: "guarded",
		Pos: f.pos(fa.Pos()), Text: fmt.Sprintf("%s of %s.%s requires %s held", kind, tname, fname, g.mu)})
}

// guardedElems emits the lock obligation for an access (load, store, copy,
// or handing a pointer to a callee) to memory that belongs to the ELEMENTS of
// a guarded slice field (`guarded T.mu: f[*]`): for every parameter p *T of
// the function under contract, "the address lies in p.f's backing array"
// implies "p.mu is held".  By address, not by syntax, so it also covers
// element pointers kept in local variables.
func (f *FnEnc) guardedElems(fr *Frame, st *State, R string, ref string, pos token.Pos, what string) {
	if fr != f.top || !f.eng.lockChecks || ref == "" || ref == "0" {
		return
	}
	for _, p := range f.fn.Params {
		pt, ok := p.Type().Underlying().(*types.Pointer)
		if !ok {
			continue
		}
		named, ok := pt.Elem().(*types.Named)
		if !ok {
			continue
		}
		g := f.eng.guardedFor(named)
		if g == nil || len(g.elems) == 0 {
			continue
		}
		if _, isStruct := named.Underlying().(*types.Struct); !isStruct {
			continue
		}
		base := f.top.vals[p]
		if base.Loc != nil || len(base.L) < 3 {
			continue
		}
		fields := f.l.structFields(named)
		var mu fieldInfo
		for _, fi := range fields {
			if fi.Name == g.mu {
				mu = fi
			}
		}
		held := f.loadLeaf(st, SBool, ptrAddr(base).plusSub(mu.Off+f.heldOffset(mu.T)))
		for _, fi := range fields {
			if !g.elems[fi.Name] {
				continue
			}
			if _, isSlice := fi.T.Underlying().(*types.Slice); !isSlice {
				continue
			}
			if ref == base.L[0] {
				continue // the struct itself, not its elements
			}
			er := f.loadLeaf(st, SInt, ptrAddr(base).plusSub(fi.Off))
			cond := implies(and(not(eq(base.L[0], "0")), not(eq(er, "0")), eq(ref, er)), held)
			if cond == "true" {
				continue
			}
			n := f.nextOrd("guardedelem:" + fi.Name + ":" + what)
			f.c.oblige(Item{Guard: R, Formula: cond, Name: f.eng.fnKey(f.fn) + fmt.Sprintf("/guarded:%s.%s[*]:%s#%d", named.Obj().Name(), fi.Name, what, n), Class: "guarded",
				Pos: f.pos(pos), Text: fmt.Sprintf("%s of an element of %s.%s requires %s held", what, named.Obj().Name(), fi.Name, g.mu)})
		}
	}
}

func (f *FnEnc) replayInfo(results []Val, post *State) *ReplayInfo {
	ri := &ReplayInfo{Fn: f.fn, Pre: f.st0, Post: post, Results: results}
	for _, p := range f.fn.Params {
		ri.Params = append(ri.Params, f.top.vals[p])
	}
	return ri
}
