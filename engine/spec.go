package main

// Contract language: parser for //@ comment files and spec expressions.

import (
	"fmt"
	"os"
	"strconv"
	"strings"
	"unicode"
)

// ---------------------------------------------------------------- AST

type SExpr interface{}

type SIdent struct{ Name string }
type SLit struct {
	Kind string // int, string, bool, nil, char
	Val  string
}
type SUnary struct {
	Op string
	X  SExpr
}
type SBinary struct {
	Op   string
	X, Y SExpr
}
type STernary struct{ C, A, B SExpr }
type SCall struct {
	Fun  string
	Args []SExpr
}
type SSelector struct {
	X    SExpr
	Name string
}
type SIndex struct{ X, I SExpr }
type SSlice struct{ X, Lo, Hi SExpr }
type SQuant struct {
	Forall bool
	Vars   []SParam
	Body   SExpr
}
type SCast struct {
	Type SType
	X    SExpr
}
type SDeref struct{ X SExpr }
type SAddrOf struct{ X SExpr }

type SType struct {
	Ptr   bool
	Slice bool
	Pkg   string
	Name  string
	Elem  *SType
}

func (t SType) String() string {
	if t.Ptr {
		return "*" + t.Elem.String()
	}
	if t.Slice {
		return "[]" + t.Elem.String()
	}
	if t.Pkg != "" {
		return t.Pkg + "." + t.Name
	}
	return t.Name
}

type SParam struct {
	Name string
	Type SType
}

// ---------------------------------------------------------------- lexer

type tok struct {
	k string // id, int, str, chr, op, eof
	s string
}

type lexer struct {
	src  string
	pos  int
	toks []tok
}

var ops = []string{"<==>", "==>", "&&", "||", "==", "!=", "<=", ">=", "<<", ">>", "&^", "::", "..",
	"(", ")", "[", "]", ".", ",", ":", "?", "!", "<", ">", "+", "-", "*", "/", "%", "&", "|", "^", "=", "#", "{", "}"}

func lex(src string) ([]tok, error) {
	var out []tok
	i := 0
	for i < len(src) {
		c := src[i]
		if c == ' ' || c == '\t' || c == '\n' {
			i++
			continue
		}
		if unicode.IsLetter(rune(c)) || c == '_' {
			j := i
			for j < len(src) && (unicode.IsLetter(rune(src[j])) || unicode.IsDigit(rune(src[j])) || src[j] == '_' || src[j] == '$') {
				j++
			}
			out = append(out, tok{"id", src[i:j]})
			i = j
			continue
		}
		if c >= '0' && c <= '9' {
			j := i
			for j < len(src) && (unicode.IsDigit(rune(src[j])) || unicode.IsLetter(rune(src[j])) || src[j] == '_') {
				j++
			}
			out = append(out, tok{"int", strings.ReplaceAll(src[i:j], "_", "")})
			i = j
			continue
		}
		if c == '"' {
			j := i + 1
			for j < len(src) && src[j] != '"' {
				if src[j] == '\\' {
					j++
				}
				j++
			}
			if j >= len(src) {
				return nil, fmt.Errorf("unterminated string")
			}
			s, err := strconv.Unquote(src[i : j+1])
			if err != nil {
				return nil, err
			}
			out = append(out, tok{"str", s})
			i = j + 1
			continue
		}
		if c == '\'' {
			j := i + 1
			for j < len(src) && src[j] != '\'' {
				if src[j] == '\\' {
					j++
				}
				j++
			}
			r, _, _, err := strconv.UnquoteChar(src[i+1:j], '\'')
			if err != nil {
				return nil, err
			}
			out = append(out, tok{"int", strconv.Itoa(int(r))})
			i = j + 1
			continue
		}
		matched := false
		for _, o := range ops {
			if strings.HasPrefix(src[i:], o) {
				out = append(out, tok{"op", o})
				i += len(o)
				matched = true
				break
			}
		}
		if !matched {
			return nil, fmt.Errorf("unexpected character %q", c)
		}
	}
	out = append(out, tok{"eof", ""})
	return out, nil
}

// ---------------------------------------------------------------- parser

type parser struct {
	toks []tok
	p    int
}

func (p *parser) peek() tok { return p.toks[p.p] }
func (p *parser) next() tok { t := p.toks[p.p]; p.p++; return t }
func (p *parser) isOp(s string) bool {
	t := p.peek()
	return t.k == "op" && t.s == s
}
func (p *parser) accept(s string) bool {
	if p.isOp(s) {
		p.p++
		return true
	}
	return false
}
func (p *parser) expect(s string) {
	if !p.accept(s) {
		panic(fmt.Errorf("expected %q, found %q", s, p.peek().s))
	}
}

func parseExpr(src string) (e SExpr, err error) {
	toks, err := lex(src)
	if err != nil {
		return nil, err
	}
	p := &parser{toks: toks}
	defer func() {
		if r := recover(); r != nil {
			if er, ok := r.(error); ok {
				err = fmt.Errorf("%v in %q", er, src)
				return
			}
			panic(r)
		}
	}()
	e = p.expr()
	if p.peek().k != "eof" {
		return nil, fmt.Errorf("trailing input %q in %q", p.peek().s, src)
	}
	return e, nil
}

func (p *parser) expr() SExpr { return p.iff() }

func (p *parser) iff() SExpr {
	x := p.impl()
	for p.accept("<==>") {
		y := p.impl()
		x = SBinary{"<==>", x, y}
	}
	return x
}

func (p *parser) impl() SExpr {
	x := p.ternary()
	if p.accept("==>") {
		y := p.impl()
		return SBinary{"==>", x, y}
	}
	return x
}

func (p *parser) ternary() SExpr {
	c := p.binary(1)
	if p.accept("?") {
		a := p.ternary()
		p.expect(":")
		b := p.ternary()
		return STernary{c, a, b}
	}
	return c
}

func prec(op string) int {
	switch op {
	case "||":
		return 1
	case "&&":
		return 2
	case "==", "!=", "<", "<=", ">", ">=":
		return 3
	case "+", "-", "|", "^":
		return 4
	case "*", "/", "%", "<<", ">>", "&", "&^":
		return 5
	}
	return 0
}

func (p *parser) binary(min int) SExpr {
	x := p.unary()
	for {
		t := p.peek()
		if t.k != "op" {
			return x
		}
		pr := prec(t.s)
		if pr < min || pr == 0 {
			return x
		}
		p.next()
		y := p.binary(pr + 1)
		x = SBinary{t.s, x, y}
	}
}

func (p *parser) unary() SExpr {
	t := p.peek()
	if t.k == "op" {
		switch t.s {
		case "!", "-", "^":
			p.next()
			return SUnary{t.s, p.unary()}
		case "*":
			p.next()
			return SDeref{p.unary()}
		case "&":
			p.next()
			return SAddrOf{p.unary()}
		}
	}
	if t.k == "id" && (t.s == "forall" || t.s == "exists") {
		p.next()
		var vars []SParam
		for {
			name := p.next()
			if name.k != "id" {
				panic(fmt.Errorf("quantifier variable expected"))
			}
			ty := p.typ()
			vars = append(vars, SParam{name.s, ty})
			if !p.accept(",") {
				break
			}
		}
		p.expect("::")
		body := p.expr()
		return SQuant{t.s == "forall", vars, body}
	}
	return p.postfix(p.primary())
}

func (p *parser) typ() SType {
	if p.accept("*") {
		e := p.typ()
		return SType{Ptr: true, Elem: &e}
	}
	if p.accept("[") {
		p.expect("]")
		e := p.typ()
		return SType{Slice: true, Elem: &e}
	}
	t := p.next()
	if t.k != "id" {
		panic(fmt.Errorf("type expected, found %q", t.s))
	}
	if p.isOp(".") && p.toks[p.p+1].k == "id" {
		p.next()
		n := p.next()
		return SType{Pkg: t.s, Name: n.s}
	}
	return SType{Name: t.s}
}

var castTypes = map[string]bool{"int": true, "int8": true, "int16": true, "int32": true, "int64": true,
	"uint": true, "uint8": true, "uint16": true, "uint32": true, "uint64": true, "byte": true, "uintptr": true}

func (p *parser) primary() SExpr {
	t := p.next()
	switch t.k {
	case "int":
		return SLit{"int", t.s}
	case "str":
		return SLit{"string", t.s}
	case "id":
		switch t.s {
		case "true", "false":
			return SLit{"bool", t.s}
		case "nil":
			return SLit{"nil", ""}
		}
		if p.isOp("(") {
			p.next()
			var args []SExpr
			for !p.isOp(")") {
				args = append(args, p.expr())
				if !p.accept(",") {
					break
				}
			}
			p.expect(")")
			if castTypes[t.s] && len(args) == 1 {
				return SCast{SType{Name: t.s}, args[0]}
			}
			return SCall{t.s, args}
		}
		return SIdent{t.s}
	case "op":
		if t.s == "(" {
			e := p.expr()
			p.expect(")")
			return e
		}
	}
	panic(fmt.Errorf("unexpected token %q", t.s))
}

func (p *parser) postfix(x SExpr) SExpr {
	for {
		switch {
		case p.isOp("."):
			p.next()
			n := p.next()
			if n.k != "id" {
				panic(fmt.Errorf("field name expected"))
			}
			// pkg.Func(...) call on a qualified identifier
			if id, ok := x.(SIdent); ok && p.isOp("(") {
				p.next()
				var args []SExpr
				for !p.isOp(")") {
					args = append(args, p.expr())
					if !p.accept(",") {
						break
					}
				}
				p.expect(")")
				x = SCall{id.Name + "." + n.s, args}
				continue
			}
			x = SSelector{x, n.s}
		case p.isOp("["):
			p.next()
			if p.isOp("*") && p.p+1 < len(p.toks) && p.toks[p.p+1].k == "op" && p.toks[p.p+1].s == "]" {
				p.next()
				p.expect("]")
				x = SIndex{x, SIdent{"*"}}
				continue
			}
			var lo, hi SExpr
			if !p.isOp(":") {
				lo = p.expr()
			}
			if p.accept(":") {
				if !p.isOp("]") {
					hi = p.expr()
				}
				p.expect("]")
				x = SSlice{x, lo, hi}
				continue
			}
			p.expect("]")
			x = SIndex{x, lo}
		default:
			return x
		}
	}
}

// ---------------------------------------------------------------- contracts

type Clause struct {
	Label    string
	Text     string
	E        SExpr
	File     string
	Line     int
	Props    []string // property ids this clause is claimed for (empty: all of the function's)
	Internal bool     // `proves`: an obligation of the function's own proof (may mention its locals), not exported to callers
	Assumed  bool     // `trusts`: exported to callers but not proved (an assumption)
}

type GhostSet struct {
	Target SExpr
	Value  SExpr
	Text   string
}

type LoopSpec struct {
	Invariants []Clause
	Modifies   []SExpr
	HasMod     bool
}

type CallAssert struct {
	Callee string // callee short name
	Ord    int    // ordinal (1-based) among calls to that callee, 0 = every
	Clause Clause
}

type Contract struct {
	Key         string // function key: "<pkgpath> <relname>" or external full name
	Pkg         string
	Safe        bool
	Inline      bool
	Pure        bool
	Trusted     bool // contract assumed, body not verified
	NoBody      bool
	Props       []string
	Requires    []Clause
	Ensures     []Clause
	Modifies    []SExpr
	HasMod      bool
	ModAll      bool
	Ghost       []GhostSet
	Loops       map[int]*LoopSpec
	CallAssert  []CallAssert
	Assumes     []Clause
	Witness     map[string]SExpr    // existential witnesses for this function's own proof
	Uses        map[string][]string // ensures label -> label prefixes of earlier ensures assumed when proving it
	Fresh       bool                // result is a freshly allocated object
	Reads       string              // for pure: "" (by type), "none", "all"
	File        string
	Line        int
	Why         string
	IntOverflow bool
	StrExt      bool         // extensionality axioms for short string literals
	EMatch      bool         // wrap element index sums in ix() for arithmetic-free triggers
	Extern      bool         // contract of a function outside the package of the file
	Unreachable map[int]bool // return sites (ordinals) known to be dead code
	DynMod      []SExpr      // assumed modifies set of calls through function values (callbacks)
	HasDynMod   bool
}

type SpecFunc struct {
	Name   string
	Params []SParam
	Ret    SType
	Body   SExpr
	Text   string
	Pkg    string
}

type Lemma struct {
	Name     string
	Pkg      string
	Params   []SParam
	Requires []Clause
	Ensures  []Clause
	Props    []string
	File     string
	Line     int
}

type GhostDecl struct {
	Pkg   string
	Type  string
	Field string
	FType SType
}

type Guarded struct {
	Pkg    string
	Type   string // named struct type, or "var <name>" for a package-level variable of struct type
	Mu     string
	Fields []string
}

type GlobalInv struct {
	Pkg    string
	Clause Clause
}

type SpecFile struct {
	Globals   []GlobalInv
	Pkg       string
	Funcs     map[string]*Contract
	Ifaces    map[string]*Contract
	SpecFuncs map[string]*SpecFunc
	Lemmas    []*Lemma
	Ghosts    []GhostDecl
	Guarded   []Guarded
}

var topKeywords = map[string]bool{"global": true, "spec": true, "ghost": true, "func": true, "lemma": true, "iface": true, "guarded": true, "level": true, "extern": true}
var clauseKeywords = map[string]bool{"safe": true, "inline": true, "pure": true, "props": true, "requires": true, "ensures": true,
	"modifies": true, "invariant": true, "loopmodifies": true, "assume": true, "assert": true, "trusted": true, "reads": true,
	"fresh": true, "ghost": true, "why": true, "nooverflow": true, "witness": true, "uses": true, "ematch": true, "strext": true, "unreachable": true, "dyncall": true, "proves": true, "trusts": true}

// parseSpecText parses the //@ lines of a contract file.  pkg is the
// package path the file belongs to ("" for the trusted table).
func parseSpecText(pkg, file, text string) (*SpecFile, error) {
	sf := &SpecFile{Pkg: pkg, Funcs: map[string]*Contract{}, Ifaces: map[string]*Contract{}, SpecFuncs: map[string]*SpecFunc{}}
	type line struct {
		n      int
		indent int
		text   string
	}
	var lines []line
	for i, raw := range strings.Split(text, "\n") {
		t := strings.TrimLeft(raw, " \t")
		if !strings.HasPrefix(t, "//@") {
			continue
		}
		body := t[3:]
		tr := strings.TrimLeft(body, " \t")
		if tr == "" {
			continue
		}
		if strings.HasPrefix(tr, "--") { // comment inside contract text
			continue
		}
		lines = append(lines, line{i + 1, len(body) - len(tr), strings.TrimRight(tr, " \t")})
	}
	// join continuation lines
	type stmt struct {
		n    int
		top  bool
		kw   string
		rest string
	}
	var stmts []stmt
	for _, l := range lines {
		w := l.text
		if i := strings.IndexAny(w, " \t"); i >= 0 {
			w = w[:i]
		}
		isTop := l.indent <= 1 && topKeywords[w]
		isClause := l.indent > 1 && clauseKeywords[w]
		if isTop || isClause {
			stmts = append(stmts, stmt{l.n, isTop, w, strings.TrimSpace(l.text[len(w):])})
		} else {
			if len(stmts) == 0 {
				return nil, fmt.Errorf("%s:%d: continuation without a clause", file, l.n)
			}
			stmts[len(stmts)-1].rest += " " + l.text
		}
	}
	var cur *Contract
	var curLemma *Lemma
	fail := func(n int, f string, a ...any) error {
		return fmt.Errorf("%s:%d: %s", file, n, fmt.Sprintf(f, a...))
	}
	mkClause := func(n int, rest string) (Clause, error) {
		label, text := "", rest
		if i := strings.Index(rest, ":"); i > 0 && isLabel(rest[:i]) && !strings.HasPrefix(rest[i:], "::") {
			label, text = strings.TrimSpace(rest[:i]), strings.TrimSpace(rest[i+1:])
		}
		var props []string
		// optional [C01,C02] prefix on the label
		if i := strings.Index(label, "["); i >= 0 && strings.HasSuffix(label, "]") {
			props = strings.Split(label[i+1:len(label)-1], ",")
			label = label[:i]
		}
		e, err := parseExpr(text)
		if err != nil {
			return Clause{}, fail(n, "%v", err)
		}
		return Clause{Label: label, Text: text, E: e, File: file, Line: n, Props: props}, nil
	}
	for _, s := range stmts {
		if s.top {
			cur, curLemma = nil, nil
			switch s.kw {
			case "spec":
				// name(params) type = expr
				i := strings.Index(s.rest, "(")
				j := matchParen(s.rest, i)
				if i < 0 || j < 0 {
					return nil, fail(s.n, "bad spec function")
				}
				name := strings.TrimSpace(s.rest[:i])
				params, err := parseParams(s.rest[i+1 : j])
				if err != nil {
					return nil, fail(s.n, "%v", err)
				}
				k := strings.Index(s.rest[j:], "=")
				if k < 0 {
					return nil, fail(s.n, "spec function without body")
				}
				retS := strings.TrimSpace(s.rest[j+1 : j+k])
				toks, err := lex(retS)
				if err != nil {
					return nil, fail(s.n, "%v", err)
				}
				ret := (&parser{toks: toks}).typ()
				body, err := parseExpr(s.rest[j+k+1:])
				if err != nil {
					return nil, fail(s.n, "%v", err)
				}
				sf.SpecFuncs[name] = &SpecFunc{Name: name, Params: params, Ret: ret, Body: body, Text: s.rest, Pkg: pkg}
			case "ghost":
				// ghost field T.name type
				f := strings.Fields(s.rest)
				if len(f) != 3 || f[0] != "field" {
					return nil, fail(s.n, "ghost field T.name type")
				}
				li := strings.LastIndex(f[1], ".")
				tn := []string{f[1][:li], f[1][li+1:]}
				toks, _ := lex(f[2])
				ty := (&parser{toks: toks}).typ()
				sf.Ghosts = append(sf.Ghosts, GhostDecl{Pkg: pkg, Type: tn[0], Field: tn[1], FType: ty})
			case "func", "iface", "extern":
				key := s.rest
				cur = &Contract{Key: key, Pkg: pkg, Loops: map[int]*LoopSpec{}, File: file, Line: s.n}
				if s.kw == "iface" {
					sf.Ifaces[key] = cur
					cur.Trusted = true
				} else {
					if s.kw == "extern" {
						cur.Trusted = true
						cur.Extern = true
					}
					if _, dup := sf.Funcs[key]; dup {
						return nil, fail(s.n, "duplicate contract for %s", key)
					}
					sf.Funcs[key] = cur
				}
			case "lemma":
				i := strings.Index(s.rest, "(")
				j := matchParen(s.rest, i)
				if i < 0 || j < 0 {
					return nil, fail(s.n, "bad lemma")
				}
				params, err := parseParams(s.rest[i+1 : j])
				if err != nil {
					return nil, fail(s.n, "%v", err)
				}
				curLemma = &Lemma{Name: strings.TrimSpace(s.rest[:i]), Pkg: pkg, Params: params, File: file, Line: s.n}
				sf.Lemmas = append(sf.Lemmas, curLemma)
			case "global":
				c, err := mkClause(s.n, s.rest)
				if err != nil {
					return nil, err
				}
				sf.Globals = append(sf.Globals, GlobalInv{Pkg: pkg, Clause: c})
			case "guarded":
				// guarded T.mu: f1 f2
				i := strings.Index(s.rest, ":")
				head := strings.TrimSpace(s.rest[:i])
				isVar := strings.HasPrefix(head, "var ")
				head = strings.TrimPrefix(head, "var ")
				tn := strings.SplitN(head, ".", 2)
				ty := tn[0]
				if isVar {
					ty = "var " + ty
				}
				sf.Guarded = append(sf.Guarded, Guarded{Pkg: pkg, Type: ty, Mu: tn[1], Fields: strings.Fields(s.rest[i+1:])})
			case "level":
			}
			continue
		}
		if curLemma != nil {
			switch s.kw {
			case "requires", "ensures":
				c, err := mkClause(s.n, s.rest)
				if err != nil {
					return nil, err
				}
				if s.kw == "requires" {
					curLemma.Requires = append(curLemma.Requires, c)
				} else {
					curLemma.Ensures = append(curLemma.Ensures, c)
				}
			case "props":
				curLemma.Props = strings.Fields(s.rest)
			default:
				return nil, fail(s.n, "clause %s not allowed in lemma", s.kw)
			}
			continue
		}
		if cur == nil {
			return nil, fail(s.n, "clause outside func")
		}
		switch s.kw {
		case "safe":
			cur.Safe = true
		case "inline":
			cur.Inline = true
		case "pure":
			cur.Pure = true
		case "trusted":
			cur.Trusted = true
		case "fresh":
			cur.Fresh = true
		case "nooverflow":
			cur.IntOverflow = true
		case "strext":
			cur.StrExt = true
		case "ematch":
			cur.EMatch = true
		case "dyncall":
			// dyncall modifies <designators>|nothing: assumed effect of calls through function values
			rest := strings.TrimSpace(strings.TrimPrefix(strings.TrimSpace(s.rest), "modifies"))
			cur.HasDynMod = true
			if rest != "nothing" {
				for _, part := range splitTop(rest) {
					e, err := parseExpr(part)
					if err != nil {
						return nil, fail(s.n, "%v", err)
					}
					cur.DynMod = append(cur.DynMod, e)
				}
			}
		case "unreachable":
			// unreachable ret N [ret M ...]: dead return sites (no reachability canary)
			if cur.Unreachable == nil {
				cur.Unreachable = map[int]bool{}
			}
			for _, w := range strings.Fields(s.rest) {
				if n, err := strconv.Atoi(strings.TrimPrefix(w, "ret")); err == nil {
					cur.Unreachable[n] = true
				}
			}
		case "reads":
			cur.Reads = s.rest
		case "why":
			cur.Why = s.rest
		case "uses":
			// uses LABEL: prefix prefix ...
			i := strings.Index(s.rest, ":")
			if i < 0 {
				return nil, fail(s.n, "uses label: prefixes")
			}
			if cur.Uses == nil {
				cur.Uses = map[string][]string{}
			}
			cur.Uses[strings.TrimSpace(s.rest[:i])] = strings.Fields(s.rest[i+1:])
		case "witness":
			i := strings.Index(s.rest, "=")
			if i < 0 {
				return nil, fail(s.n, "witness name = expr")
			}
			w, err := parseExpr(s.rest[i+1:])
			if err != nil {
				return nil, fail(s.n, "%v", err)
			}
			if cur.Witness == nil {
				cur.Witness = map[string]SExpr{}
			}
			cur.Witness[strings.TrimSpace(s.rest[:i])] = w
		case "props":
			cur.Props = strings.Fields(s.rest)
		case "requires", "ensures", "assume", "proves", "trusts":
			c, err := mkClause(s.n, s.rest)
			if err != nil {
				return nil, err
			}
			switch s.kw {
			case "requires":
				cur.Requires = append(cur.Requires, c)
			case "proves":
				c.Internal = true
				cur.Ensures = append(cur.Ensures, c)
			case "trusts":
				// a postcondition callers may rely on that is NOT proved here
				// (an assumption, listed in the evidence)
				c.Assumed = true
				cur.Ensures = append(cur.Ensures, c)
			case "ensures":
				cur.Ensures = append(cur.Ensures, c)
			default:
				cur.Assumes = append(cur.Assumes, c)
			}
		case "modifies":
			cur.HasMod = true
			if strings.TrimSpace(s.rest) == "*" {
				cur.ModAll = true
				break
			}
			if strings.TrimSpace(s.rest) == "nothing" {
				break
			}
			for _, part := range splitTop(s.rest) {
				e, err := parseExpr(part)
				if err != nil {
					return nil, fail(s.n, "%v", err)
				}
				cur.Modifies = append(cur.Modifies, e)
			}
		case "ghost":
			i := strings.Index(s.rest, "=")
			if i < 0 {
				return nil, fail(s.n, "ghost assignment needs =")
			}
			t, err := parseExpr(s.rest[:i])
			if err != nil {
				return nil, fail(s.n, "%v", err)
			}
			v, err := parseExpr(s.rest[i+1:])
			if err != nil {
				return nil, fail(s.n, "%v", err)
			}
			cur.Ghost = append(cur.Ghost, GhostSet{Target: t, Value: v, Text: s.rest})
		case "invariant":
			// invariant loop N label: expr
			f := strings.Fields(s.rest)
			if len(f) < 3 || f[0] != "loop" {
				return nil, fail(s.n, "invariant loop N label: expr")
			}
			n, err := strconv.Atoi(f[1])
			if err != nil {
				return nil, fail(s.n, "loop ordinal: %v", err)
			}
			rest := strings.TrimSpace(strings.TrimPrefix(strings.TrimSpace(strings.TrimPrefix(s.rest, "loop")), f[1]))
			c, err := mkClause(s.n, rest)
			if err != nil {
				return nil, err
			}
			ls := cur.Loops[n]
			if ls == nil {
				ls = &LoopSpec{}
				cur.Loops[n] = ls
			}
			ls.Invariants = append(ls.Invariants, c)
		case "loopmodifies":
			i := strings.Index(s.rest, ":")
			n, err := strconv.Atoi(strings.TrimSpace(s.rest[:i]))
			if err != nil {
				return nil, fail(s.n, "loop ordinal: %v", err)
			}
			ls := cur.Loops[n]
			if ls == nil {
				ls = &LoopSpec{}
				cur.Loops[n] = ls
			}
			ls.HasMod = true
			if strings.TrimSpace(s.rest[i+1:]) != "nothing" {
				for _, part := range splitTop(s.rest[i+1:]) {
					e, err := parseExpr(part)
					if err != nil {
						return nil, fail(s.n, "%v", err)
					}
					ls.Modifies = append(ls.Modifies, e)
				}
			}
		case "assert":
			// assert at call NAME#K label: expr
			f := strings.Fields(s.rest)
			if len(f) < 4 || f[0] != "at" || f[1] != "call" {
				return nil, fail(s.n, "assert at call NAME#K label: expr")
			}
			name, ord := f[2], 0
			if i := strings.Index(name, "#"); i >= 0 {
				ord, _ = strconv.Atoi(name[i+1:])
				name = name[:i]
			}
			rest := strings.TrimSpace(s.rest[strings.Index(s.rest, f[2])+len(f[2]):])
			c, err := mkClause(s.n, rest)
			if err != nil {
				return nil, err
			}
			cur.CallAssert = append(cur.CallAssert, CallAssert{Callee: name, Ord: ord, Clause: c})
		default:
			return nil, fail(s.n, "unknown clause %s", s.kw)
		}
	}
	return sf, nil
}

func isLabel(s string) bool {
	s = strings.TrimSpace(s)
	if s == "" {
		return false
	}
	for _, r := range s {
		if !(unicode.IsLetter(r) || unicode.IsDigit(r) || r == '-' || r == '_' || r == '[' || r == ']' || r == ',') {
			return false
		}
	}
	return true
}

func matchParen(s string, i int) int {
	if i < 0 {
		return -1
	}
	d := 0
	for j := i; j < len(s); j++ {
		switch s[j] {
		case '(':
			d++
		case ')':
			d--
			if d == 0 {
				return j
			}
		}
	}
	return -1
}

// splitTop splits on commas that are not inside brackets.
func splitTop(s string) []string {
	var out []string
	d := 0
	start := 0
	for i := 0; i < len(s); i++ {
		switch s[i] {
		case '(', '[':
			d++
		case ')', ']':
			d--
		case ',':
			if d == 0 {
				out = append(out, strings.TrimSpace(s[start:i]))
				start = i + 1
			}
		}
	}
	if strings.TrimSpace(s[start:]) != "" {
		out = append(out, strings.TrimSpace(s[start:]))
	}
	return out
}

func parseParams(s string) ([]SParam, error) {
	var out []SParam
	for _, part := range splitTop(s) {
		toks, err := lex(part)
		if err != nil {
			return nil, err
		}
		if len(toks) < 3 || toks[0].k != "id" {
			return nil, fmt.Errorf("bad parameter %q", part)
		}
		p := &parser{toks: toks, p: 1}
		ty := p.typ()
		out = append(out, SParam{toks[0].s, ty})
	}
	return out, nil
}

func loadSpecFile(pkg, path string) (*SpecFile, error) {
	b, err := os.ReadFile(path)
	if err != nil {
		return nil, err
	}
	return parseSpecText(pkg, path, string(b))
}

// splitConj splits a clause into its top-level conjuncts, distributing an
// implication over a conjunctive consequent, so that each conjunct becomes
// its own obligation (finer diagnostics, smaller queries).
func splitConj(e SExpr) []SExpr {
	switch x := e.(type) {
	case SBinary:
		switch x.Op {
		case "&&":
			return append(splitConj(x.X), splitConj(x.Y)...)
		case "==>":
			var out []SExpr
			for _, c := range splitConj(x.Y) {
				out = append(out, SBinary{"==>", x.X, c})
			}
			return out
		}
	}
	return []SExpr{e}
}

// substExpr replaces free identifiers of e by the expressions in m (bound
// variables of quantifiers shadow).
func substExpr(e SExpr, m map[string]SExpr) SExpr {
	switch x := e.(type) {
	case SIdent:
		if r, ok := m[x.Name]; ok {
			return r
		}
		return x
	case SUnary:
		return SUnary{x.Op, substExpr(x.X, m)}
	case SBinary:
		return SBinary{x.Op, substExpr(x.X, m), substExpr(x.Y, m)}
	case STernary:
		return STernary{substExpr(x.C, m), substExpr(x.A, m), substExpr(x.B, m)}
	case SCall:
		args := make([]SExpr, len(x.Args))
		for i, a := range x.Args {
			args[i] = substExpr(a, m)
		}
		return SCall{x.Fun, args}
	case SSelector:
		return SSelector{substExpr(x.X, m), x.Name}
	case SIndex:
		return SIndex{substExpr(x.X, m), substExpr(x.I, m)}
	case SSlice:
		var lo, hi SExpr
		if x.Lo != nil {
			lo = substExpr(x.Lo, m)
		}
		if x.Hi != nil {
			hi = substExpr(x.Hi, m)
		}
		return SSlice{substExpr(x.X, m), lo, hi}
	case SQuant:
		m2 := map[string]SExpr{}
		for k, v := range m {
			m2[k] = v
		}
		for _, v := range x.Vars {
			delete(m2, v.Name)
		}
		return SQuant{x.Forall, x.Vars, substExpr(x.Body, m2)}
	case SCast:
		return SCast{x.Type, substExpr(x.X, m)}
	case SDeref:
		return SDeref{substExpr(x.X, m)}
	case SAddrOf:
		return SAddrOf{substExpr(x.X, m)}
	}
	return e
}

// mentionsOld reports whether e contains old(...), atcall(...) or a quantifier
// binding one of the names (in which case syntactic expansion is not used).
func mentionsOld(e SExpr) bool {
	found := false
	var walk func(e SExpr)
	walk = func(e SExpr) {
		switch x := e.(type) {
		case SUnary:
			walk(x.X)
		case SBinary:
			walk(x.X)
			walk(x.Y)
		case STernary:
			walk(x.C)
			walk(x.A)
			walk(x.B)
		case SCall:
			if x.Fun == "old" || x.Fun == "atcall" {
				found = true
			}
			for _, a := range x.Args {
				walk(a)
			}
		case SSelector:
			walk(x.X)
		case SIndex:
			walk(x.X)
			walk(x.I)
		case SSlice:
			walk(x.X)
			if x.Lo != nil {
				walk(x.Lo)
			}
			if x.Hi != nil {
				walk(x.Hi)
			}
		case SQuant:
			walk(x.Body)
		case SCast:
			walk(x.X)
		case SDeref:
			walk(x.X)
		case SAddrOf:
			walk(x.X)
		}
	}
	walk(e)
	return found
}

// splitConjMacro is splitConj that also opens a conjunct that is a call of a
// user spec function whose body is a conjunction (one obligation per
// conjunct of the predicate instead of one for the whole predicate).
func splitConjMacro(e SExpr, lookup func(name string) *SpecFunc) []SExpr {
	var out []SExpr
	for _, p := range splitConj(e) {
		head, body := SExpr(nil), p
		if b, ok := p.(SBinary); ok && b.Op == "==>" {
			head, body = b.X, b.Y
		}
		if c, ok := body.(SCall); ok {
			if sf := lookup(c.Fun); sf != nil && len(sf.Params) == len(c.Args) && !mentionsOld(sf.Body) {
				if parts := splitConj(sf.Body); len(parts) > 1 {
					m := map[string]SExpr{}
					for i, prm := range sf.Params {
						m[prm.Name] = c.Args[i]
					}
					for _, q := range parts {
						var one SExpr = substExpr(q, m)
						if head != nil {
							one = SBinary{"==>", head, one}
						}
						out = append(out, splitConjMacro(one, lookup)...)
					}
					continue
				}
			}
		}
		out = append(out, p)
	}
	return out
}
