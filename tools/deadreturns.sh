#!/bin/sh
# Lists the return sites (and functions) that are UNREACHABLE under their contracts, looking at every vacuity canary
# for 30 s instead of the 3 s of a normal run.  Each line needs a decision: a dead return that is dead code in the
# source gets an `unreachable retN` clause with the reason; anything else is a contradiction in the contracts.
cd "$(dirname "$0")/.." || exit 2
for p in $(ls /repo/*/verif_contracts.go | xargs -n1 dirname | xargs -n1 basename); do
  GVC_CANARY_SECS=30 ./bin/gvc fn -pkgs ./$p -only canary "$p." 2>/dev/null | grep '^vacuous'
done
