#!/bin/bash
# tryfn.sh <patch.diff> <pkgs> <function substring...>: applies a patch to a scratch copy of /repo's working tree and runs
# `gvc fn` on the named functions only (light: one function at a time; several full checks in parallel make obligations time out).
# Development aid for triaging seeded changes; leaves nothing behind.
P="$1"; pk="$2"; shift 2
D=$(mktemp -d /tmp/gvc-seed-XXXXXX)
rsync -a --exclude .git /repo/ "$D"/
(cd "$D" && patch -p1 -s < "$P") || echo PATCH-DOES-NOT-APPLY
/verif/bin/gvc fn -repo "$D" -pkgs "$pk" -timeout 60 "$@" 2>&1 | grep -v '^proved\|sat-ok\|canary' | cut -c1-230 | tail -8
rm -rf "$D"
