#!/bin/sh
# tryseed.sh <patch.diff> <prop> [prop...]: applies a seeded patch to a scratch copy of /repo's working tree and runs the
# named property checks against it (no evidence written); prints the VIOLATION lines and the summary.
P="$1"; shift
D=$(mktemp -d /tmp/gvc-seed-XXXXXX)
rsync -a --exclude .git /repo/ "$D"/
(cd "$D" && patch -p1 -s < "$P") || { echo "PATCH-DOES-NOT-APPLY"; rm -rf "$D"; exit 2; }
for p in "$@"; do
  /verif/bin/gvc check -repo "$D" -verif /verif -no-evidence "$p" | grep '^VIOLATION\|^ERROR\|^property' | cut -c1-260
done
rm -rf "$D"
