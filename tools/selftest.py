#!/usr/bin/env python3
"""Must-fail corpus: applies each patch of /verif/selftest/*/ and /verif/seeded/*/ to a scratch
worktree of /repo (outside /repo and /verif), runs the property's check against it and expects a
VIOLATION line; the worktree is removed afterwards.  Exit 0 iff every patch is detected."""
import json, os, subprocess, sys, glob, shutil, tempfile

VERIF = os.path.dirname(os.path.dirname(os.path.abspath(__file__)))
only = sys.argv[1:]
cases = sorted(glob.glob(VERIF + "/selftest/*/meta.json") + glob.glob(VERIF + "/seeded/*/meta.json"))
bad = 0
HEAD = subprocess.run(["git", "-C", "/repo", "rev-parse", "HEAD"], capture_output=True, text=True).stdout.strip()
# a frozen copy of the engine, so that rebuilding it while the corpus runs does not mix versions
fd, BIN = tempfile.mkstemp(prefix="gvc-frozen-")
os.close(fd)
shutil.copy(VERIF + "/bin/gvc", BIN)
os.chmod(BIN, 0o755)
# ... and of the files of /verif the engine reads (trusted contracts, findings, stretch list, expected names, hints)
FROZEN = tempfile.mkdtemp(prefix="gvc-frozen-verif-")
for f in ["trusted", "known_findings.txt", "stretch.txt", "expected_obligations.json", "solver_hints.json", "prop_notes.json", "MANIFEST.json", "properties.jsonl"]:
    src = os.path.join(VERIF, f)
    if os.path.isdir(src):
        shutil.copytree(src, os.path.join(FROZEN, f))
    elif os.path.exists(src):
        shutil.copy(src, os.path.join(FROZEN, f))
for meta in cases:
    d = os.path.dirname(meta)
    name = os.path.basename(d)
    if only and not any(o in name for o in only):
        continue
    m = json.load(open(meta))
    props = m["property"] if isinstance(m["property"], list) else [m["property"]]
    wt = tempfile.mkdtemp(prefix="gvc-selftest-")
    os.rmdir(wt)
    subprocess.run(["git", "-C", "/repo", "worktree", "add", "-q", "--detach", wt, HEAD], check=True)
    try:
        # uncommitted contract files of the working tree are part of the tree under test
        r = subprocess.run(["git", "-C", wt, "apply", os.path.join(d, "patch.diff")], capture_output=True, text=True)
        if r.returncode != 0:
            print("SELFTEST %-45s PATCH-DOES-NOT-APPLY %s" % (name, r.stderr.strip()[:100]))
            bad += 1
            continue
        detected = []
        for p in props:
            out = subprocess.run([BIN, "check", "-repo", wt, "-verif", FROZEN, "-no-evidence", p], capture_output=True, text=True).stdout
            if "VIOLATION property=" + p in out:
                detected.append(p)
        if detected:
            print("SELFTEST %-45s detected by %s" % (name, ",".join(detected)))
        else:
            print("SELFTEST %-45s MISSED (expected a violation of %s)" % (name, ",".join(props)))
            bad += 1
    finally:
        subprocess.run(["git", "-C", "/repo", "worktree", "remove", "--force", wt])
        shutil.rmtree(wt, ignore_errors=True)
os.remove(BIN)
shutil.rmtree(FROZEN, ignore_errors=True)
sys.exit(1 if bad else 0)
