#!/usr/bin/env python3
"""mkmutant.py <name> <props,comma> <file> <old> <new> <what>: records a must-fail mutant under /verif/selftest/<name>/
(the replacement of the first occurrence of <old> by <new> in /repo/<file>), after checking that it compiles."""
import sys, os, subprocess, json, tempfile, shutil
name, props, file, old, new, what = sys.argv[1:7]
wt = tempfile.mkdtemp(prefix="gvc-mk-"); os.rmdir(wt)
subprocess.run(["git", "-C", "/repo", "worktree", "add", "-q", "--detach", wt, "HEAD"], check=True)
try:
    p = os.path.join(wt, file)
    s = open(p).read()
    if old not in s:
        sys.exit("old text not found")
    open(p, "w").write(s.replace(old, new, 1))
    r = subprocess.run(["go", "build", "./..."], cwd=wt, capture_output=True, text=True)
    if r.returncode != 0:
        sys.exit("does not compile:\n" + r.stderr)
    diff = subprocess.run(["git", "-C", wt, "diff"], capture_output=True, text=True).stdout
    d = "/verif/selftest/" + name
    os.makedirs(d, exist_ok=True)
    open(d + "/patch.diff", "w").write(diff)
    pl = props.split(",")
    json.dump({"property": pl if len(pl) > 1 else pl[0], "what": what, "expect": "VIOLATION"}, open(d + "/meta.json", "w"), indent=1)
    print("recorded", d)
finally:
    subprocess.run(["git", "-C", "/repo", "worktree", "remove", "--force", wt])
    shutil.rmtree(wt, ignore_errors=True)
