#!/usr/bin/env python3
"""trymut.py <file> <old> <new> -- <gvc fn args...>: applies a textual mutation to a scratch copy of /repo's working tree
(uncommitted contract edits included) and runs `gvc fn -repo <copy> args`; development aid, leaves nothing behind."""
import sys, os, subprocess, tempfile, shutil
i = sys.argv.index("--")
file, old, new = sys.argv[1:4]
args = sys.argv[i+1:]
d = tempfile.mkdtemp(prefix="gvc-try-")
try:
    subprocess.run(["rsync", "-a", "--exclude", ".git", "/repo/", d + "/"], check=True)
    if os.path.isabs(file):
        file = os.path.relpath(file, "/repo")
    p = os.path.join(d, file)
    s = open(p).read()
    if old not in s:
        sys.exit("old text not found")
    open(p, "w").write(s.replace(old, new, 1))
    r = subprocess.run(["go", "build", "./..."], cwd=d, capture_output=True, text=True)
    if r.returncode != 0:
        sys.exit("does not compile:\n" + r.stderr)
    out = subprocess.run(["/verif/bin/gvc", "fn", "-repo", d] + args, capture_output=True, text=True).stdout
    for l in out.splitlines():
        if l.startswith(("proved", "sat-ok", "  note", "  trusted", "ok ")):
            continue
        print(l[:260])
finally:
    shutil.rmtree(d, ignore_errors=True)
