# Per-property claims (read by mkmanifest.py).  Keep in step with DESIGN.md.

claim("C01", "DESIGN.md 5 C01",
      "Every obligation generated from the contracts of packetmap.compare, (*Map).Map, Drop, reset, addMapping, direct, Reverse and of rtpconn.(*rtpDownTrack).Write/write is discharged for all 2^16 seqnos and all table states: "
      "exact case-by-case postconditions of Map/Drop, the representation invariant wf (shape + I_tail + ghost links delta == -dropped, pidDelta == droppedFrames) preserved by every operation, "
      "and the property clauses as postconditions over ghost state: number == source - withheld (Map and, composed, Write: the emitted packet's seqno field), successor-of-last-number (unique/ordered/gap-free), "
      "a late copy of a packet of the newest interval keeps its number, a packet just withheld lies outside the newest interval.",
      "Assumed: sync.Mutex lock-ghost contract; sequential semantics (Drop-then-Map is not atomic under concurrent Writes); pion/webrtc, sync.Pool and estimator contracts listed in the evidence. "
      "Coverage of an interval is stated in plain modular arithmetic (s - first < count), not with the code's own mod-2^16 comparisons; the representation invariant includes short(m): every interval covers at most 0x4000 packets "
      "(intervals grew without bound and late packets then took another packet's number: repaired). "
      "Not decided: first-hit consistency over OLDER intervals of the ring (clauses about late copies / withheld packets are stated for the newest interval); 0x4000 or more consecutive withheld packets.")

claim("C02", "DESIGN.md 5 C02",
      "codecs.RewritePacket is proved against a byte-exact contract for ALL byte strings and codec names (marker only ever set, seqno bytes, every other byte unchanged except the 7/15-bit picture id, "
      "new id == old id + delta mod 2^7/2^15, M bit kept, no out-of-bounds access); rtpconn.Write is proved to leave its input buffer unmodified, to emit at most one packet, and to emit a packet whose "
      "picture id is the source id minus the number of withheld frames (ghost droppedFrames maintained by packetmap.Drop/Map), through call-site proof steps over the private copy.",
      "Assumed: pion depacketiser contracts (PacketFlags is treated as a deterministic function of codec and bytes), sync.Pool discipline (a pooled buffer has length 1504 and is not aliased), "
      "TrackLocalStaticRTP.Write does not modify its argument. Not decided: SSRC / payload type / header-extension rewriting inside pion (excluded by the statement); "
      "the marker rule is proved as 'only ever set' in RewritePacket, and Write asks for it only on a packet that ends a frame, has no marker yet and belongs to the selected spatial layer (call-site obligation marker-top).")

claim("C04", "DESIGN.md 5 C04",
      "The layer word: pack/unpack are proved lossless, and the invariant INV (selected and wanted layers never exceed the highest seen; limitSid implies wantedSid == 0; fields fit 4 bits) is proved "
      "for every value any writer stores (setLayerInfo requires INV at every call site; loads assume it: rely/guarantee, hence for all interleavings). "
      "Write's per-packet transition rules are postconditions over the old and new word and PacketFlags' result: sid changes only at a keyframe start or when following a new top layer; tid falls only at a frame start and rises only at a keyframe, "
      "an up-switch point not above the wanted layer, or following a new top layer; an in-order packet above the selection is withheld (nothing emitted, recorded by the map); limitSid forces sid 0 at the next keyframe. "
      "adjustLayer moves only the wanted layers by one step within the seen range; updateRate's value is always within [minLossRate, maxLossRate] with no 64-bit overflow, and the ceiling GetMaxBitrate reports is at least minLossRate unless the receiver's own estimate is lower - also before the first receiver report (a new track reported 0 during the first 30 s of the process: repaired).",
      "Assumed: atomics are modelled as plain accesses within one function body (sequential), estimator readings arbitrary, pion TID/SID field widths. "
      "replaceTracks' deferred update of the word (limitSid installed as requested, wanted spatial layer forced to 0, selection untouched, INV kept) is verified too, and replaceTracks itself guarantees that on every successful return - also when the set of tracks did not change - every track of the connection carries the request. "
      "Not decided: lost updates of the transition bookkeeping when Write and adjustLayer race.")

claim("C05", "DESIGN.md 5 C05",
      "packetcache New, Store, get, Get, GetAt, Last, Keyframe, resize, Resize, ResizeCond, entry.length/marker: Store puts exactly the packet (seqno, timestamp, length, marker, every byte) in slot old(tail) and nothing else changes; "
      "Get/GetAt return either nothing or exactly one stored slot's length/timestamp/marker/bytes (first match; bytes past the length untouched; a recycled or out-of-range slot yields nothing); "
      "resize copies the newest min(old,new) slots field by field and byte by byte in each of its three branches, keeps indices below the tail valid when it can, and preserves the length invariant; all for symbolic tails and 16-bit seqnos (wraparound inside the proof).",
      "Lock coverage is an obligation, not an assumption: every field of Cache AND every access to an element of the ring (loads, stores, copies, pointers handed to callees - by address, so element pointers kept in locals count) requires the cache's mutex held; "
      "rtpconn.readLoop (the only writer) is verified to cache each packet under the sequence number, timestamp and marker of the cached bytes' own header, with exactly the bytes read or re-serialised. "
      "Assumed: sync.Mutex lock-ghost contract; pion Unmarshal/MarshalTo header layout. "
      "Quick tier: the ring-position restatements of resize (j-th newest slot) are stretch (10-20 s each) and claimed only in the thorough tier. Not decided: call-site preconditions in rtpconn readLoop/writers are not yet under contract.")

claim("C06", "DESIGN.md 5 C06",
      "bitmap.set/get, BitmapGet, Store (counters), Expect, GetStats, ToBitmap: get reports only seqnos that were examined (strictly before next, inside the window) whose bit was clear, shifts them out (reported at most once) and is complete for the examined range; "
      "set never un-records a received packet inside the 2^15 horizon and records only the packet given; ToBitmap's result is a lossless split of the list (every consumed seqno encoded, every set bit stands for a list element); "
      "received <= expected per interval and in total is preserved; the extended highest seqno is monotone unless the stream restarts (> 256 backwards).",
      "Assumed: 2^32 packets without a statistics reset do not occur (stated precondition). Not decided: 'a packet that goes missing from a steadily arriving stream IS requested' (needs timing/progress), "
      "rtpconn.readLoop IS under contract: the bitmap is asked for a window ending 2 to 4 packets before the newest packet only when the newest packet is more than 2 (at most 24) packets past the first missing one, and exactly what it reports is sent as a NACK; the writer-side NACK path (rtpwriter) and sendUpRTCP's fraction arithmetic are not yet under contract.")

claim("C12", "DESIGN.md 5 C12",
      "No-panic sweep (index, slice bounds, nil dereference, division, type assertion, makeslice) proved for all inputs over: codecs.RewritePacket, PacketFlags, Keyframe (AV1 and H.264 parsers with loop invariants), KeyframeDimensions; "
      "all of packetmap and packetcache under their representation invariants; rtpconn Write/write, gotNACK, layer functions, adjustLayer, updateRate, bitrate, sadd; webClient accessors, write, error, errorMessage; group chat-history functions and simple accessors. "
      "RewritePacket cannot change the packet length (it receives the slice by value and writes only data[*]). handleClientMessage: every call of a *Group method is proved to have a non-nil receiver (nil-group dereferences after a refused or redirected join: repaired).",
      "Assumed: pion Unmarshal contracts (write only their receiver; VP9 success implies non-empty input). Not decided / not yet under contract: the full no-panic sweep of handleClientMessage/handleAction (type assertions and slices inside the handler are not swept), HTTP handlers, sdpfrag; panics inside dependencies; resource exhaustion.")

claim("C03", "DESIGN.md 5 C03",
      "packetmap.Reverse is proved to invert the table: a hit names a source packet that some interval maps to exactly the requested number with that interval's picture-id shift; numbers outside every interval's image get nothing. "
      "The closure of rtpconn.gotNACK serving one NACKed number is verified against: nothing is emitted unless the number lies in the image of an interval; at most one packet is emitted; "
      "a number of the newest interval is answered with a packet emitted under exactly that number (Reverse newest + cache lookup + Write's late-copy clause, which re-derives the number through Map/direct).",
      "Assumed: conn.UpTrack.GetPacket returns a cached packet whose header seqno is the requested one (an interface contract; justified by C05 Get and by the verified call-site obligation in rtpconn.readLoop that packets are stored under their own header's number), rtcp.NackPair.Range only calls the closure. "
      "Not decided: older intervals of the ring (first-hit consistency between Reverse and direct is the ring-order invariant, see C01); equality of the marker bit when the selected layer changed since the original transmission (recomputed from the current layer).")

claim("C10", "DESIGN.md 5 C10",
      "group.AddClient is verified against the admission rules as postconditions of the one critical section in which it runs (g.mu is proved held from the first guarded read to the insertion): "
      "on success of a non-system non-operator the group was not locked, not full (len(clients) <= MaxClients afterwards), inside its not-before/expires window, and with autokick an operator was found; "
      "on success the client is registered under its non-empty id, an existing registration under that id refuses the join; on every refusal the client object is left exactly as it was (Init not called: ghost count). "
      "autoLockKick never lifts or replaces an existing lock and locks only autolock groups; it is proved to be called with g.mu held at every call site (DelClient's call was outside the critical section: repaired). "
      "autoLockKick leaves an autolock group locked unless it found an operator among the members (also when there are none). DelClient evaluates the rule on the table WITHOUT the leaver, inside the critical section of the removal (call-site obligation after-removal, ghost counter at the Unlock), so the last operator's departure is seen. "
      "AddClient/DelClient/Add frames are explicit (what they may modify) and checked write by write. getClientsUnlocked / GetClients return every member other than the excepted one (visited-set ghost of the map range).",
      "group.add/Add are verified too: names the validator refuses are rejected before any lookup, and on every successful lookup the autolock/autokick rule has been evaluated for the group, under its mutex, after the description was settled (ghost counter; a new autolock group starts locked). "
      "Assumed: readDescription, descriptionMatch/Unchanged (trusted), group.Client callbacks do not touch the group's guarded state, time.Time comparisons are pure; Description.GetPermission is verified under C08/C09. "
      "Not decided: that a kicked client eventually leaves (liveness); description reload races with file edits; 'announced to no one' on refusal is read from the code structure (all notifications follow the insertion), not a separate obligation.")

claim("C11", "DESIGN.md 5 C11",
      "rtpconn.handleClientMessage (600 lines, every path) is verified against call-site obligations: each privileged effect is reached only with c.group != nil and the permission it needs "
      "(gotOffer: present; chat/usermessage forwarding and history: message or caption; clearchat, lock, subgroups, setdata, op/unop/present/..., identify, kick: op; record/unrecord: record; "
      "maketoken: token, own group, no subgroups, an expiry, and every delegated permission held - loop invariant; edittoken/listtokens: op and token, own group only; setdata on oneself only), "
      "and against the invariant 'a client that is not a member holds no permission', which is a pre- and postcondition of the handler on every return (it fails at the old redirect return and after the old AddClient: both repaired). "
      "Token listing reaches only the member's own group: token.List / state.List / state.list return, for a named group, only tokens whose group is exactly that group (loop invariant over the collected tokens; sort.Slice as a permutation in place) - not tokens of an enclosing group, not global ones.",
      "leaveGroup is verified (a client that has left holds no permission and no group, and leaves through group.DelClient); handleAction is under contract for its guards (connection offers and membership events are handled only for the client's current group; a membership event handled after the client left used to dereference a nil group: repaired); "
      "the WHIP handlers are under contract: every effect on a WHIP session (close, version checks, ICE restart and candidates) comes after the session's bearer token was compared with the one presented, and a publisher's connection is created only after admission with the present permission. "
      "Assumed: frames of the handler's callees marked trusted (they leave c.group, c.permissions, c.id, c.username alone: gotOffer, negotiate, delUpConn, ... listed in the evidence), token and diskwriter externs. "
      "Revocation: remove leaves NO occurrence of the revoked permission in the list (it removed the first one only, and a token can list a permission twice: repaired), and handleAction applies a queued permission change only while the client is a member of the group in which an operator decided it (the change carried no group and followed the client into the next group it joined: repaired). "
      "Not decided: permissionsChangedAction closing the up connections is verified for memory safety only; 'from the moment the client has been notified' under concurrent delivery.")

claim("C13", "DESIGN.md 5 C13",
      "Lock-ghost verification of the group layer: for Group.{description, locked, clients, history, timestamp, data}, the table groups.groups and Channel.queue every load and store in a function under contract carries the obligation 'mutex held' "
      "(functions documented 'called locked' require it; public ones are proved to take and release the lock; double Lock and Unlock of an unheld mutex are obligations too). "
      "unbounded.Channel Put/Get: Put appends exactly v at the end and changes nothing else, Get returns the whole queue and leaves it empty (exactly once, in order, linearised).",
      "Two lock-ORDER rules are call-site obligations: group.kickall issues every Kick with the group's mutex released and never from under Group.Range (Shutdown deadlocked with a recorder or WHIP publisher in a group: repaired); "
      "rtpconn.WhipClient.Close never calls into the group with the client's own mutex held (the group calls Permissions() with its mutex held: deadlock, repaired), and WhipClient.NewConnection creates its connection (newUpConn calls into the group) before taking that mutex. WhipClient.group and WhipClient.connection are declared guarded by the client's mutex: every read and write in Group, RequestConns, Close, NewConnection is proved to hold it (Group and RequestConns read the group pointer unlocked: data race with Close, repaired). group.GetDescription reads the description under the group's mutex (data race: repaired). "
      "PARTIAL. Under contract: Name, Locked, SetLocked, Data, UpdateData, Description, ClientCount, mayExpire, Get, Delete, deleteUnlocked, Range (both), AddClient, DelClient, autoLockKick, GetClients, getClientsUnlocked, GetClient, getClientUnlocked, UserExists, chat history functions, Channel.Put/Get. "
      "Not yet under contract (accessors of guarded state outside the claim): Shutdown, WallOps, GetPublic, Update, the other WhipClient methods (GotOffer, UFragPwd, Restart, GotICECandidate), diskwriter.Client, stats; webClient.group (written by the client's goroutine, read by pion callbacks) is not declared guarded. "
      "Not decided: lock-ORDER deadlock freedom (level ghosts not built: WhipClient.Close vs AddClient and kickall re-entering the group are NOT checked), lost wakeups, starvation, leaks. Callbacks passed to Range are assumed not to touch the lock.")

claim("C15", "DESIGN.md 5 C15",
      "handleClientMessage: at the forwarding call sites (broadcast and direct write) the message passed on has Source/Username/Dest/Type/Kind/Value copied from the incoming one, the incoming Source is empty or the sender's id and the Username nil or the sender's name "
      "(the prologue returns a ProtocolError otherwise), Privileged == ('op' in the sender's permissions); only broadcast chat is recorded. "
      "group history: AddToChatHistory keeps len <= 50, appends exactly the entry given, preserves order and drops exactly the oldest entry when full (overlapping copy modelled as memmove); "
      "discardObsoleteHistory/GetChatHistory return a suffix in order as a private copy; ClearChatHistory('', '') empties.",
      "broadcast is verified: it returns early only when the message cannot be marshalled, otherwise it goes through the whole slice it is given (a member whose writer is gone is skipped). "
      "Assumed: slices.DeleteFunc's documented behaviour, time.Since, channel sends reach the member's writer. "
      "GetClients(except) is proved to be all members minus the sender (visited-set ghost of the map range); discardObsoleteHistory keeps an entry only after testing one entry and finding it young enough (the scan does not just run out of entries). "
      "Not decided: the replay loop on join (handleAction); that history entries are in time order; wall-clock meaning of the age limit.")

claim("C17", "DESIGN.md 5 C17",
      "Authentication dominance in webserver/api.go: in apiHandler, apiGroupHandler, usersHandler, specialUserHandler, userHandler, passwordHandler, keysHandler and tokensHandler every call that reads or writes a group definition, "
      "user, key or token (and every 304/412 answer that discloses a tag) is proved to be reached only after checkAdmin (or, for a password change only, checkAdminOrExplicitPassword for THAT user) returned true FOR THE ADDRESSED GROUP, on every path; "
      "tokens are shown, replaced and deleted only inside the addressed group. group/description.go: GetSanitisedDescription returns a private copy without users, wildcard user and keys; GetSanitisedUser returns no password material; "
      "UpdateDescription/UpdateUser refuse unsanitised input and carry the stored users, keys and the addressed user's password over; UpdateUser, DeleteUser, SetUserPassword and SetKeys write back the definition they read with only the addressed entry changed "
      "(every other user's presence and password, the wildcard user and the keys are equal to what was read: quantified over all user names).",
      "checkAdmin / checkAdminOrExplicitPassword / isAdminOrExplicitPassword / globalAdminMatch / checkGlobalAdminToken are verified too: true only for a configured server administrator whose password matches and who holds 'admin', "
      "a token valid for the ROOT scope carrying 'admin' (only when no group is addressed), credentials to which the ADDRESSED group grants 'admin', or - only when a user is named, i.e. only for the password endpoint - the current password of that user of that group, PRESENTED in credentials that name that user (a request without credentials passed when the stored password was of the wildcard type: repaired); "
      "the credentials examined are those of the request; a refusal has answered 401, an acceptance has written nothing. "
      "Assumed (trusted contracts): apiCORS; readDescription/GetDescription return what the file holds; JSON encoding writes what it is given; net/http. "
      "Not decided: 404 vs 401 ordering, that JSON marshalling of UserDescription omits nothing else secret, the WHIP and public-groups endpoints; the composition across functions is by contract text (internal proof steps refer to call results), not one exported postcondition.")

claim("C18", "DESIGN.md 5 C18",
      "webserver/precondition.go: etagMatch never matches without a header or for an absent object (not even '*') and matches an identical tag; checkPreconditions answers 412 when If-Match is present and does not match, 304 (GET/HEAD) or 412 (writes) when If-None-Match matches, and otherwise lets the request through having sent nothing - "
      "stated over etagMatch as a pure function, for all header values, where the value of a header is the comma-joined list of ALL its lines (only the first line was read - and my contract said so too: repaired and restated). The handlers pass the tag they evaluated to the update. group/description.go: UpdateDescription, DeleteDescription, UpdateUser, DeleteUser, SetUserPassword, SetKeys are proved to read, compare and replace the definition inside ONE critical section of groups.mu "
      "(lock ghost: held at the read, at the comparison and at the write), to write only if the caller's tag equals the tag of the definition just read (empty tag: only if the object is absent), hence of concurrent writers with one tag at most one succeeds. "
      "rewriteDescriptionFile: the definition's path is touched by exactly one operation, os.Rename from a temporary file in the same directory, and only after Encode, Sync and Close all succeeded; every clean-up removes the temporary file only.",
      "Assumed: os.Rename is atomic on one file system, fsync makes the data durable, the file system is shared with nobody who bypasses groups.mu (another process editing files), makeETag is a deterministic function of size and mtime "
      "(two versions with equal size AND equal mtime are indistinguishable: the statement's 'differing in size or modification time'). "
      "Not decided: etagMatch's list/weak-tag parsing beyond the three stated clauses (scanETag is proved panic-free only), crash behaviour of the file system itself, readers that race with a rename on non-POSIX systems; the .keys and .password endpoints do not compare the request's preconditions at all (SetKeys / SetUserPassword take no tag: observed, executed by a sub-agent, described in DESIGN.md 10.2, not repaired).")

claim("C08", "DESIGN.md 5 C08",
      "group/group.go, client.go, description.go: Description.getPasswordPermission is proved to admit a username/password iff the username has an entry whose password matches (the wildcard is then not consulted), or has no entry and the wildcard user's password matches, "
      "returning exactly the matched record's permissions and nothing on refusal; Password.Match: an entry without password never matches, a wildcard password always does, a plaintext password matches exactly the identical string "
      "(ConstantTimeCompare is proved to be string equality for all lengths), unknown types and every error are refusals; Permissions.Permissions: a raw list is returned as is, a role yields exactly the role's list preceded by 'record' iff the group allows recording "
      "and the role contains op (and not record), and by 'token' iff the group has unrestricted tokens and the role contains present (and not token) - loop invariants over the role list, for every content of the role table; "
      "Description.GetPermission composes them: a password login succeeds iff getPasswordPermission admits and the name is valid, under the name given, with exactly those permissions; every refusal returns no name and no permission.",
      "The pbkdf2 and bcrypt branches of Match are pinned to the primitives: a key or salt that is not hexadecimal is a refusal, the derived key is computed from THIS password with the record's salt, iteration count and key length and compared with the record's key, bcrypt compares the record's hash with this password, and the result is exactly the comparison's; a pbkdf2 record with an EMPTY key matches nothing (it matched every password: repaired). "
      "Stored records: \"password\": null is read as no password (it was read as the empty plain password, which matched: repaired), and a record is written in the compact form only if it is plain AND has a key (a keyless plain record became null, i.e. - before the repair - the empty password). "
      "Assumed: hex/pbkdf2/bcrypt primitives (external, effect-free), Password.Match deterministic (declared pure), validGroupName pure (C19), encoding/json. "
      "Not decided: that pbkdf2/bcrypt hashes produced by galenectl verify for the right password and no other (cryptographic; only the plaintext and wildcard types are decided), "
      "the content of permissionsMap (the role table is a package-level literal: the contract holds for every table, so 'operators' means 'roles whose list contains op'), that a refused client is left outside the group (C10 AddClient clauses).")

claim("C09", "DESIGN.md 5 C09",
      "token/stateful.go: Stateful.match is proved equal to the scope rule for all strings (own group; with include-subgroups the groups strictly below it, the byte after the prefix being '/', so 'a' never covers 'ab'; the root scope only for a root token that includes subgroups); "
      "Stateful.Check accepts only inside that scope, only with an expiry, not after it and not before not-before (both compared with the one clock reading), and returns exactly the token's username and permissions; "
      "token/jwt.go: matchGroup without subgroups accepts exactly /group/<g>/, with subgroups only a path that begins with /group/, ends in '/', and is a prefix of /group/<g>/ cut at a component boundary; "
      "JWT.Check accepts only if matchGroup succeeded for THIS group with the token's own include-subgroups claim on an audience whose host is the configured one; ParseKeys hands a key to verification only if its declared alg (and kid, when given) equals the header's, "
      "and the key function rejects a header without alg before any key is looked at; group.GetPermission checks the token against the group being joined and the configured host, grants exactly what the check returned, "
      "lets the token's username win and never lets a client-chosen name shadow a configured user; webserver.checkGlobalAdminToken checks the ROOT scope.",
      "Assumed: golang-jwt (signature verification, expiry-required option honoured), ParseKey (trusted), time.Time comparisons pure, url.Parse. "
      "Not decided: signature cryptography; that WithExpirationRequired is effective inside the library; JWT 'nbf'/'exp' arithmetic inside the library; the meaning of the audience URL beyond host and path.")

claim("C16", "DESIGN.md 5 C16",
      "token/stateful.go (every function of the store under contract, no-panic included): the table, file name and file version are only touched with the state's mutex held (Update/Delete locked another mutex than Get/List: repaired); "
      "Update replaces an existing token only if the caller's tag equals the tag computed in the same critical section after (re)loading the file, and adds a new one only under the empty tag; Delete likewise; "
      "rewrite touches the token file only by removing it when the table is empty or by renaming over it a temporary file of the same directory after every token was encoded and the file closed without error, clean-ups remove only the temporary file; "
      "add changes the table only after the line was appended; a failed load forgets the table; the table never holds nil entries (lock invariant assumed at Lock, re-proved at every return); "
      "the roll-back after a failed rewrite can no longer hit a dropped table (nil-map panic: repaired); load forgets the table when the file has vanished or cannot be opened (revocation by removing the file is final); "
      "Expire, like Update and Delete, forgets the table when its sweep cannot be written (it kept the swept table: memory and file disagreed, repaired); the API handler reaches Update/Delete of a token only after the request's If-Match/If-None-Match were compared with the tag read together with the token, and hands that tag on.",
      "Assumed: os.Rename atomic, append-mode write of one line atomic enough for add, JSON encode/decode faithful, the version tag (size, mtime) distinguishes versions (stated in the property). "
      "Not decided: equality of the honoured set with what a fresh process reads (needs a model of the file contents: only the order of operations on the file is proved); an external edit DURING a critical section (outside the stated quantifier) can make rewrite reload the table and drop the pending change - "
      "visible in the contract of rewrite (table afterwards: same, newly read, or nil) and described in DESIGN.md; durability without fsync in rewrite (rewriteDescriptionFile syncs, the token store does not).")

claim("C19", "DESIGN.md 5 C19",
      "group.validGroupName is proved to accept exactly the good names (for all strings: not empty, no backslash, not absolute, no trailing slash, every component non-empty and neither '.' nor '..'), in both directions; "
      "validUsername is that or empty; webserver.parseGroupName is proved to return only good names or nothing (it returned names containing a backslash: repaired); "
      "group.getDescriptionFile (both instantiations) hands the file system only paths of the form Directory joined with path.Clean of a ROOTED path plus '.json', so no name can climb out of the groups directory; "
      "Description.GetPermission admits a client only under a username the validator accepts, on every login path (password, stateful token, JWT).",
      "Assumed (trusted contract, stated for rooted arguments only): path.Clean returns a canonical rooted path, leaves canonical paths unchanged and introduces no new bytes; strings.ContainsRune for ASCII; filepath.Join joins; os.Root confines (recordings, static files). "
      "The static-file handler, serveFile, the recordings handler and its delete action are under contract: files named by a request are opened or removed ONLY through the os.Root of their directory (any call of the unconfined os.Open/OpenFile/ReadFile/Stat/Remove/Rename or http.ServeFile in them is a failed obligation), "
      "recordings are served, listed or deleted only after the record permission for THAT group was checked, and a deletion removes Join(group, Clean('/'+filename)) for a slash-free file name. "
      "PARTIAL / not decided: os.Root confinement itself is the operating system's; diskwriter.sanitise (strings.Replacer) and openDiskFile; that every other entry point validates before use; "
      "the trusted clauses about path.Clean are NOT proved (the thorough tier also runs tools/cleancheck, a bounded exhaustive comparison of those clauses with the real path.Clean on all 97656 rooted strings up to length 9 over {a . / \\ 0xC3}: a supporting check of the assumption, labelled bounded, never counted).")

claim("C20", "DESIGN.md 5 C20",
      "NARROW: the recorder's boundary only. diskwriter.diskTrack.Write parses a private copy of the incoming packet of exactly its length (the caller's buffer is reused by the forwarding path, the sample builder retains packets); "
      "gap recovery calls fetch for exactly the missing numbers lastSeqno+1 .. seqno-1 in increasing order and only for gaps below 256; fetch asks the publisher's cache for that number without scheduling a NACK, "
      "parses exactly the bytes returned (it parsed the whole 1504-byte buffer: repaired) from a buffer of its own, and writes only a packet that parsed; the incoming packet is written after the recovered ones; no panic in Write/fetch; the maybeUint32 helpers are exact. "
      "adjustOrigin (audio and video share one time origin): when a file is opened the shift is computed from the opening track's timestamp at its own clock rate, and every track with an origin is moved by that same duration converted at THAT track's clock rate. "
      "diskConn.close (stopping the recording / departure of the publisher): every track is flushed first and then every writer is closed - when close returns no track is left with an open writer, it returns all the tracks and the connection has no file "
      "(close flushed and closed track by track, so a writer created by a later track's flush stayed open and the file unfinished: repaired). "
      "initWriter: a track that had a time origin still has one when the file has been opened or - for a keyframe with new dimensions - reopened, so that keyframe and the frames after it are written (the reopening cleared the origin and every frame until the next keyframe was dropped: repaired); setOrigin always leaves the track with an origin; "
      "initWriter leaves the connection's list of tracks and every track's connection in place. "
      "writeBuffered (the body is under contract): every block handed to the container writer is the popped sample's own data with the keyframe flag computed for it, stamped with (sample time - track origin) modulo 2^32 divided by the track's own clock rate in kHz, and only while the track has an origin; "
      "its calls of close and initWriter meet their preconditions on every iteration (loop invariant over the connection's tracks).",
      "Assumed: pion rtp.Packet.Unmarshal, writeRTP and requestKeyframe (trusted: they keep the track's connection, publisher, list of tracks and lock); two frame postconditions of writeBuffered that its callers rely on (`trusts keeps`, `keeps-tracks`: listed as assumptions, not proved - its body is verified for the clauses above); "
      "samplebuilder Pop/ForcePopWithTimestamp and BlockWriteCloser.Write/Close have no effect on the recorder's state; the type invariant of a recording connection (its tracks are real, belong to it, have a publisher; the track is one of them); rtptime.FromDuration/ToDuration as pure functions of their arguments (128-bit arithmetic, not modelled). "
      "NOT decided (the larger part of the statement): everything inside writeRTP, pion samplebuilder and ebml-go - frame completeness, order, duplicates, 'no frame after the first keyframe is missing', monotone timestamps, the rest of the shared-origin logic (sender reports), which samples writeBuffered skips, container well-formedness, flush on close. "
      "These need contracts on third-party sample assembly and container code that is outside the repository.")

PENDING = "not yet carried by the engine in this build (work in progress; see DESIGN.md section 9 for the order of work)"
na("C07", "not decidable by per-call contracts here: the statement is an if-and-only-if over whole histories (every request change, publish, replace, close, kick in any interleaving) with asynchronous delivery through per-client action queues and a 200 ms push goroutine; it needs event-log ghosts over unbounded histories plus interference reasoning that this engine does not have. "
   "Per-function pieces ARE under contract and discharged under C11/C12 (rtpconn.requestedTracks$1 returns the first / the last track of a kind, requestedTracks returns at most two of the publisher's tracks and nothing when nothing is requested; handleClientMessage's guards on membership), but they do not add up to the property and are not claimed for it.")
na("C14", "not decidable by per-call contracts here: convergence of every member's view at quiescence, 'exactly once', and 'no event about one group reaches a member of another' are statements over all interleavings of joins, leaves, kicks and permission changes with asynchronous delivery. "
   "The snapshot functions group.getClientsUnlocked / GetClients are proved to return every member other than the excepted one (visited-set ghost of the map range), but the fan-out itself (one PushClient per member of the snapshot, in both directions, ordered against later joins) is not stated as a postcondition: the engine has no ghost for the multiset of calls issued to interface methods. "
   "AddClient/DelClient are under contract for C10/C13 (admission, locking, frames); their notification loops are verified for memory safety only.")
