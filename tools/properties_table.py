# Per-property claims (read by mkmanifest.py).  Keep in step with DESIGN.md.

claim("C01", "DESIGN.md 5 C01",
      "Every obligation generated from the contracts of packetmap.compare, (*Map).Map, Drop, reset, addMapping, direct (and Reverse for the inverse) is discharged for all 2^16 seqnos and all table states: "
      "exact case-by-case postconditions of Map/Drop, the representation invariant wf (shape + I_tail + ghost link delta == -dropped) preserved by every operation, "
      "and the property clauses as postconditions over ghost state: number == source - withheld, successor-of-last-number (unique/ordered/gap-free), "
      "a late copy of a packet of the newest interval keeps its number, a packet just withheld lies outside the newest interval.",
      "Assumed: sync.Mutex lock-ghost contract; sequential semantics (Drop-then-Map is not atomic under concurrent Writes). "
      "Not decided: the ring-order invariant over older intervals (aged intervals alias after >= 2^15 packets without a new interval: clauses are stated under explicit youngness hypotheses); "
      "composition with rtpconn.Write is claimed under C02/C04.")

for pid, reason in {
}.items():
    na(pid, reason)
