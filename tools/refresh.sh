#!/bin/sh
# Re-records expected obligation names and solver hints for every claimed property
# (run after any change to contracts or engine, before committing).
cd "$(dirname "$0")/.." || exit 2
for p in $(python3 -c "import json;print(' '.join(c['property_id'] for c in json.load(open('MANIFEST.json'))['checks']))"); do
  ./bin/gvc check -update-expected "$p" | tail -1
done
