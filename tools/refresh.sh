#!/bin/sh
# Re-records expected obligation names and solver hints for every claimed property
# (run after any change to contracts or engine, before committing).
# Works on frozen copies of the engine binary and of the /verif files it reads, and on a scratch worktree of
# /repo's HEAD, so that editing may go on while it runs; commit contract changes in /repo first.
cd "$(dirname "$0")/.." || exit 2
WT=$(mktemp -d /tmp/gvc-refresh-XXXXXX); rmdir "$WT"
BIN=$(mktemp /tmp/gvc-frozen-XXXXXX)
FV=$(mktemp -d /tmp/gvc-frozen-verif-XXXXXX)
cp bin/gvc "$BIN"; chmod 755 "$BIN"
cp -r trusted known_findings.txt stretch.txt expected_obligations.json solver_hints.json prop_notes.json MANIFEST.json properties.jsonl "$FV"/ 2>/dev/null
git -C /repo worktree add -q --detach "$WT" HEAD || exit 2
# optional arguments: the properties to refresh (default: every claimed property)
PROPS="$*"
[ -n "$PROPS" ] || PROPS=$(python3 -c "import json;print(' '.join(c['property_id'] for c in json.load(open('MANIFEST.json'))['checks']))")
for p in $PROPS; do
  "$BIN" check -repo "$WT" -verif "$FV" -update-expected -no-evidence "$p" | grep -v '^  \|^KNOWN' | tail -3
done
cp "$FV"/expected_obligations.json "$FV"/solver_hints.json .
git -C /repo worktree remove --force "$WT"
rm -rf "$WT" "$BIN" "$FV"
