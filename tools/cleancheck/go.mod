module cleancheck

go 1.23
