// cleancheck compares the clauses of the TRUSTED contract of path.Clean
// (/verif/trusted/stdlib.spec: rooted, canonical, fixpoint, no-new-bytes) with
// the real function on every rooted string up to a length bound over a small
// alphabet.  It is a bounded, supporting check of an assumption: it proves
// nothing and is never counted as a discharged obligation.
package main

import (
	"fmt"
	"os"
	"path"
)

func canonical(s string) bool {
	for i := 0; i < len(s); i++ {
		if s[i] != '/' {
			continue
		}
		if !(i+1 < len(s) || len(s) == 1) {
			return false
		}
		if i+1 < len(s) && s[i+1] == '/' {
			return false
		}
		if i+1 < len(s) && s[i+1] == '.' && (i+2 == len(s) || s[i+2] == '/') {
			return false
		}
		if i+2 < len(s) && s[i+1] == '.' && s[i+2] == '.' && (i+3 == len(s) || s[i+3] == '/') {
			return false
		}
	}
	return true
}

func main() {
	alphabet := []byte{'a', '.', '/', '\\', 0xc3}
	bound := 8
	n := 0
	var rec func(buf []byte)
	bad := 0
	rec = func(buf []byte) {
		p := string(buf)
		r := path.Clean(p)
		n++
		fail := func(what string) {
			bad++
			if bad < 20 {
				fmt.Printf("path.Clean(%q) = %q contradicts clause %s\n", p, r, what)
			}
		}
		if len(r) == 0 || r[0] != '/' {
			fail("rooted")
		}
		if !canonical(r) {
			fail("canonical")
		}
		if canonical(p) && r != p {
			fail("fixpoint")
		}
		for i := 0; i < len(r); i++ {
			found := false
			for j := 0; j < len(p); j++ {
				if p[j] == r[i] {
					found = true
				}
			}
			if !found {
				fail("no-new-bytes")
			}
		}
		if len(buf) < bound {
			for _, c := range alphabet {
				rec(append(buf, c))
			}
		}
	}
	rec([]byte{'/'})
	fmt.Printf("cleancheck: %d rooted strings up to length %d over %q compared with the trusted contract of path.Clean: %d contradictions (bounded supporting check, not a proof)\n", n, bound, alphabet, bad)
	if bad > 0 {
		os.Exit(1)
	}
}
