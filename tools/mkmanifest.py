#!/usr/bin/env python3
"""Regenerates /verif/MANIFEST.json from the per-property table below."""
import json, subprocess, os

ENV = "GOPROXY=off GOFLAGS=-mod=vendor GONOSUMDB=golang.org/x,github.com,gopkg.in,honnef.co,pgregory.net"

# id -> (design_ref, claim text, level_note (assumed / not decided), technique)
CLAIMED = {}
NOT_APPLICABLE = {}

def claim(pid, ref, text, note, technique="contract-based deductive verification: VCs generated from go/ssa of the real code, discharged by SMT (z3/cvc5)"):
    CLAIMED[pid] = (ref, text, note, technique)

def na(pid, reason):
    NOT_APPLICABLE[pid] = reason

exec(open(os.path.join(os.path.dirname(__file__), "properties_table.py")).read())

def hook_commits():
    out = subprocess.run(["git", "-C", "/repo", "log", "--format=%H %s"], capture_output=True, text=True).stdout
    return [l.split()[0] for l in out.splitlines() if " verif:" in " " + l.split(" ", 1)[1] or l.split(" ", 1)[1].startswith("verif:")]

m = {
    "version": 1,
    "setup_cmd": "cd /verif/engine && %s go build -o /verif/bin/gvc ." % ENV,
    "hooks": {
        "guard": "verif",
        "enable": "-tags verif (the tag only adds comment-only verif_contracts.go files, one per package under contract; gvc checks on every run that they contain zero declarations, so the compiled code is identical with and without the tag)",
        "baseline_off_cmd": "cd /repo && go test -vet=off -count=1 ./...",
        "source_commits": hook_commits(),
        "add_only": True,
    },
    "engines": [{
        "name": "gvc",
        "path": "/verif/engine",
        "serves_properties": sorted(CLAIMED),
        "kind_free_text": "contract-based deductive verifier for Go written for this task: verification conditions generated from the go/ssa (NaiveForm) form of the real code in /repo, contracts as //@ structured comments in comment-only //go:build verif files next to the code, exact bit-vector integer semantics, typed (ref,idx,sub) heap model, modular calls (callee contracts, never bodies), loop invariants, frames, ghost state, lock ghosts; one SMT-LIB2 query per obligation raced on z3 5.1.0, z3 4.8.12 and cvc5 1.0",
    }],
    "checks": [],
    "not_applicable": [{"property_id": k, "reason": v} for k, v in sorted(NOT_APPLICABLE.items())],
    "notes": "DESIGN.md explains the approach. ./check <id> quick|thorough; exit 0 = every claimed obligation discharged (KNOWN-FINDING lines for recorded defects), exit 1 + VIOLATION lines = a claimed obligation failed on the current tree, exit 2 + ERROR = engine/vacuity error. ./check selftest runs the must-fail corpus (seeded/ and selftest/).",
}
for pid in sorted(CLAIMED):
    ref, text, note, tech = CLAIMED[pid]
    m["checks"].append({
        "property_id": pid,
        "quick_cmd": "./check %s quick" % pid,
        "thorough_cmd": "./check %s thorough" % pid,
        "evidence_file": "/verif/evidence/%s.json" % pid,
        "replay_cmd_template": "./check --replay {path}",
        "engine": "gvc",
        "level_claimed": {"category": "proof", "text": text, "design_ref": ref},
        "level_note": note,
        "technique": tech,
    })
json.dump(m, open("/verif/MANIFEST.json", "w"), indent=1)
json.dump({k: v[2] for k, v in CLAIMED.items()}, open("/verif/prop_notes.json", "w"), indent=1)
print("MANIFEST.json:", len(m["checks"]), "checks,", len(m["not_applicable"]), "not applicable")
